"""Registry of checks: one entry per claimed property (read by ./run)."""

COMMON_ASSUMPTIONS = [
    "x86-64 little-endian target, 64-bit usize, rustc 1.95 (stable) as installed in the sandbox",
    "trusted base: rustc/LLVM, core integer primitives (the model self-check compares every spec function with them before each run), the harness' digit<->byte repacking, from_digits/digits()/from_bits/to_bits as the only way values enter and leave the subject",
    "coverage is complete for the enumerated finite state sets only (see coverage.profiles[].configs); wider value spaces are covered by boundary-digit products, not completely (DESIGN.md section 12)",
]

BOTH = ["release", "relda"]


def core(bin_, rule, text, ref, note, technique=None, profiles=None, extra=None, pkg="vcore"):
    d = {
        "pkg": pkg,
        "bin": bin_,
        "profiles": profiles or BOTH,
        "rule": rule,
        "level_text": text,
        "design_ref": ref,
        "level_note": note,
        "technique": technique or "bounded exhaustive state enumeration of the real code against an exact-integer reference model (explicit-state model checking, depth-1 transitions from every initial state)",
    }
    if extra:
        d.update(extra)
    return d


NOTE_MODEL = "trusted: exact-integer reference model (BigRef / checked i128), self-checked against Rust's primitive integers on every run; rustc; both build profiles of the harness (debug assertions + overflow checks on / off) are run"

CHECKS = {
    "C01": core(
        "c01",
        "states = all (r0, r1[, carry]) register tuples of each configuration's plan (FULL^2 at 8 bits, FULL x GRID / FULL^2 at 16 bits, boundary-digit GRID^2 elsewhere), every operation of the add/sub/neg/abs alphabet executed on bnum and compared with exact integer arithmetic; non-trivial = transitions whose expected outcome is on the rare side (overflow flag set, None, panic of a strict form)",
        "Every add/sub/neg/abs/carrying/abs_diff/midpoint form of every listed configuration agrees with exact integer arithmetic on every enumerated operand tuple, in both build profiles. Complete for 8-bit types (and 16-bit in the thorough tier); boundary-digit products beyond.",
        "DESIGN.md section 5 C01",
        NOTE_MODEL,
    ),

    "C02": core(
        "c02",
        "states = all (r0, r1[, carry register]) tuples of each plan (FULL^2 and FULL^3 for carrying_mul at 8 bits, FULL x GRID / FULL^2 at 16 bits, boundary-digit GRID^2 x 10 carries elsewhere); every multiplication form compared with the exact product (hi*2^BITS + lo = a*b + c for the widening helpers); non-trivial = overflow flag / None / strict panic expected",
        "All multiplication forms (overflowing/checked/wrapping/saturating/strict/unchecked, widening_mul, carrying_mul) agree with the exact integer product on every enumerated tuple in both build profiles.",
        "DESIGN.md section 5 C02",
        NOTE_MODEL,
    ),
    "C03": core(
        "c03",
        "states = all (dividend, divisor) pairs of each plan (FULL^2 at 8 bits, FULL x GRID / FULL^2 at 16 bits, boundary-digit GRID^2 with N = 2, 3 for every digit width, which reaches every branch of Knuth D); every div/rem form compared with the model's bit-serial division and the rounding rule of the function; non-trivial = None / overflow flag (zero divisor, MIN / -1)",
        "Every division and remainder form satisfies n = q*d + r with the documented rounding on every enumerated pair; zero divisors give None from checked forms; MIN / -1 is reported as the statement lists. Zero-divisor panics are left to C04.",
        "DESIGN.md section 5 C03",
        NOTE_MODEL,
    ),
    "C04": core(
        "c04",
        "states = operand pairs (FULL^2 at 8 bits; reduced boundary sets plus range roots elsewhere) x shift amounts of each of the 12 primitive rhs types (MIN, -1, 0, 1, BITS-1, BITS, BITS+1, 2^32.., MAX of the type) x exponents; every operator, unsuffixed method, strict_/checked_/wrapping_/overflowing_/saturating_ form executed under catch_unwind in a binary built with debug assertions + overflow checks and in one built without; observation = panicked | returned(value); non-trivial = transitions expected to panic",
        "Panic / no-panic outcome (and the wrapped value returned instead of a panic in release builds) of every listed operator and method equals the model's panic predicate on every enumerated state, in both build modes.",
        "DESIGN.md section 5 C04",
        NOTE_MODEL,
    ),
    "C05": core(
        "c05",
        "states = (value, amount): FULL values up to 16 bits (24 in the thorough tier), boundary-digit sets beyond; amounts = every s <= BITS+2 (digit boundaries +-1 for wide types) plus 2*BITS-1.., 3*BITS, 255, 256, 2^16, 2^31, 2^32-2, 2^32-1; all shift forms, unbounded shifts, rotations and rotl/rotr round trips compared with bit-vector semantics; non-trivial = None / flag / strict panic (amount >= BITS)",
        "Shifts and rotations agree with bit-vector semantics for every enumerated (value, amount), including amounts >= BITS and widths that are not powers of two.",
        "DESIGN.md section 5 C05",
        NOTE_MODEL,
    ),
    "C06": core(
        "c06",
        "states = values (FULL up to 16 bits, 24 in the thorough tier; boundary sets incl. every single-bit / prefix / suffix / digit-run mask beyond) x bit indices x (for set_bit) values, all two-step set_bit sequences on 8/16-bit types, pairs for the logic operators; compared with the model's bit pattern; non-trivial = None from checked_next_power_of_two",
        "Bitwise logic, counts, bit/set_bit, power_of_two, next_power_of_two, swap_bytes and reverse_bits (and their involution) agree with the exact bit pattern on every enumerated state.",
        "DESIGN.md section 5 C06",
        NOTE_MODEL,
    ),
    "C07": core(
        "c07",
        "states = all pairs of each plan (FULL^2 at 8 bits, FULL x GRID at 16, GRID^2 elsewhere: pairs agreeing on all high digits / differing only in the sign bit are in the product) and triples for clamp; operators, trait methods and const twins compared with the order of the denoted integers; Hash: byte stream fed to a recording Hasher and a fixed-key SipHash digest must be equal for equal values and the stream must determine the digits; non-trivial = pairs comparing Equal",
        "Comparison, equality, min/max/clamp, sign predicates and Hash agree with the numeric value on every enumerated pair/triple.",
        "DESIGN.md section 5 C07",
        NOTE_MODEL,
    ),
    "C08": core(
        "c08",
        "states = (base, exponent): FULL bases up to 16 bits, boundary sets plus floor(2^(BITS/j))+-1 (exact roots of the range, also negated) and b^k-1, b^k, b^k+1 beyond; exponents 0..=BITS+1, 2^j, 2^j+-1, 2^32-2, 2^32-1; (x, base) pairs for ilog: FULL^2 at 8 bits, x in {b^k-1, b^k, b^k+1} for a base list elsewhere; compared with exact powers (early exit) and modular exponentiation in the model; non-trivial = overflow flag / None / strict panic",
        "pow in all overflow modes and ilog/ilog2/ilog10 (+checked) agree with exact big-integer powers on every enumerated state.",
        "DESIGN.md section 5 C08",
        NOTE_MODEL,
    ),

    "C10": core(
        "c10",
        "states = (byte string, radix) and (digit slice, radix): (a) all strings of <= 4 characters (<= 3 above 16 bits; <= 5/6 over a reduced alphabet) over {0, 1, top digit in both cases, first invalid digit, +, -, space, _, e-acute} plus every byte value 0..255 alone / next to a digit / after a sign, per radix; (b) every count of leading zeros x all digit bodies over {0, 1, top} up to capacity+1 digits x sign; (c) numerals of boundary values (incl. MAX+1, MIN-1, (MAX+1)*r, 2^BITS*r^j) with 0..2*capacity+1 leading zeros, both cases, with/without '+'; (d) all digit slices of <= 4-5 digits over {0, 1, r-1, r, 255} and value-directed slices in both byte orders; compared with an independent reference parser into exact integers; non-trivial = expected Err / None",
        "from_str_radix, FromStr, parse_bytes (parse_str_radix on valid input) and from_radix_be/le accept exactly the integer grammar and return the denoted value / the documented error kind on every enumerated string and slice.",
        "DESIGN.md section 5 C10",
        NOTE_MODEL,
    ),
    "C11": core(
        "c11",
        "states = (value, radix): FULL values up to 16 bits (24 bits x 12 radices in the thorough tier), boundary-digit sets elsewhere x every radix 2..=256; to_str_radix / to_radix_be / to_radix_le compared with repeated division in the model, and parse(print(x)) = x through the real parser",
        "Radix output is the canonical numeral / digit sequence and round-trips through the real parser for every enumerated (value, radix).",
        "DESIGN.md section 5 C11",
        NOTE_MODEL,
        extra={"assumptions": ["distinct_nontrivial counts transitions with an expected Err/None/panic; C11 has none by construction (every state is a valid value and radix)"]},
    ),
    "C12": core(
        "c12",
        "states = (value, trait, flag combination, width): FULL values at 8 bits (16 in the thorough tier), boundary sets plus d*10^k numerals elsewhere x 8 traits x 56 combinations of fill/alignment, '+', '#', '0' (literal format strings) x widths around the numeral lengths and 255; oracle = the primitive holding the same value (<= 128 bits; the BITS-bit pattern for radix forms) or a wrapper handing the model's numeral to Formatter::pad_integral (wider; the wrapper is itself compared with the primitives first)",
        "Display, Debug, Binary, Octal, LowerHex, UpperHex, LowerExp, UpperExp print exactly what Rust prints for a primitive of the same value, for every enumerated value, flag combination and width.",
        "DESIGN.md section 5 C12",
        NOTE_MODEL + "; core::fmt::Formatter::pad_integral is trusted for widths above 128 bits",
    ),

    "C09": core(
        "c09",
        "states = (source value, ordered type pair): every ordered pair of a list of bnum types (18 in the quick tier, 42 in the thorough tier: all four digit types, widths 8..320 incl. 24, 40, 48, 96, 136, 192) x every source value of a plan (FULL up to 16 bits, boundary sets beyond, plus 2^tbits / 2^(tbits-1) +-2 of the target embedded in the source), every bnum type x each of the 12 primitive integers in both directions, bool and char sources (every char in the thorough tier), and the bit-preserving reinterpretations on unary plans; expected = source value mod 2^(target BITS); As::as_ and CastFrom::cast_from must agree",
        "As / CastFrom between all enumerated integer type pairs yield the source value reduced modulo 2^(target BITS) and never panic; cast_signed / cast_unsigned / to_bits / from_bits preserve the bit pattern.",
        "DESIGN.md section 5 C09",
        NOTE_MODEL + "; quick tier runs the debug-assertion profile only (the cast code has no build-mode arms), thorough both",
        extra={"bin_thorough": "c09t", "profiles_quick": ["relda"], "assumptions": ["distinct_nontrivial: casts have no rare side (never None / panic); the count is of expected-panic/None transitions and is 0 by construction"]},
    ),
    "C13": core(
        "c13",
        "states = (source value, ordered type pair) as in C09: BTryFrom for every ordered bnum pair, TryFrom<bnum> for each primitive, From / TryFrom<primitive>, From<bool>, From<char> for bnum targets at least as wide as the source, and the digit-array layout (from_digits / digits / From<[digit; N]> / Into / from_digit, observed through an independent shift-and-convert channel); expected = Ok(value) iff representable else Err; non-trivial = expected Err",
        "Checked conversions succeed exactly when the value is representable in the target, without panicking, for every enumerated source value and type pair.",
        "DESIGN.md section 5 C13",
        NOTE_MODEL + "; quick tier runs the debug-assertion profile only, thorough both",
        extra={"bin_thorough": "c13t", "profiles_quick": ["relda"]},
    ),

    "C14": core(
        "c14",
        "float -> int states = (bit pattern, target type): sign x every exponent x a mantissa alphabet (single bits, all-ones prefixes / suffixes, +-1 around them; subnormals, +-0, +-inf, NaNs) for f32 and f64, all 2^32 f32 patterns in the thorough tier; int -> float states = (value, float type): FULL values up to 16 bits, boundary sets, and for every bit length L {top-p-bit patterns} x {guard bit} x {sticky: none, lowest, highest, all} for p = 24, 53 and their negations (all values below 2^32 in the thorough tier), on widths up to 1088 bits (beyond the largest finite f32 and f64); compared with truncation / saturation and round-to-nearest-even computed in exact integers (self-checked against `as` on primitives); non-trivial: none by construction",
        "As/CastFrom casts between bnum integers and f32/f64 round, truncate and saturate exactly like Rust's `as` on every enumerated bit pattern / value.",
        "DESIGN.md section 5 C14",
        NOTE_MODEL,
    ),
    "C15": core(
        "c15",
        "states = byte slices: every slice of length 0..=2*BYTES+2 (<= 7, 9 thorough, beyond 24 bits) over {00, 01, 7f, 80, ff}; byte images of boundary values truncated to shorter lengths and extended by pad sequences (all-00 / all-ff / a non-pad byte at either end of the padding) of 1..=digit bytes + 2 bytes in both byte orders; from_be_slice / from_le_slice compared with the denoted integer; to_be/from_be/to_le/from_le on unary plans (little-endian target: identity / swap_bytes); non-trivial = expected None",
        "from_be_slice / from_le_slice return Some(v) exactly when the byte string denotes a representable value, and the endianness helpers reverse the byte order exactly when the target's endianness differs (little-endian half; the nightly *_bytes methods are checked by the companion binary when the nightly toolchain builds the crate).",
        "DESIGN.md section 5 C15",
        NOTE_MODEL + "; the big-endian half of the to_be/from_be sentence cannot be executed on this target and is not claimed",
        extra={"nightly_bin": "c15n"},
    ),
    "C16": core(
        "c16",
        "states = operand tuples from the union of the boundary sets of every digit type of the width; (a) same width, two digit types (16: D8x2~D16x1; 64: D8x8, D16x4, D32x2 ~ D64x1; 192: D32x6, D8x24 ~ D64x3; all widths up to 320 bits in the thorough tier): every operation of the C01, C02, C03, C05 and value-level tables (C06-C08 too in the thorough tier) must give identical observations, and the As cast must agree with byte repacking; (b) (narrow, wide) pairs: checked add/sub/mul/div/div_euclid/neg/pow, exact rem / shl, cmp, eq, decimal print and parse must commute with extension (None in the narrow type only if the wide result is None or outside the narrow range); (c) BITS, BYTES, MIN, MAX, ZERO, ONE..TEN, NEG_ONE..NEG_TEN of every configuration and the U128..U8192 / I128..I8192 aliases against the model; non-trivial = expected None",
        "Results depend only on width, signedness and value on every enumerated state: differential exploration of pairs of instantiations (no model involved) plus constants against the model.",
        "DESIGN.md section 5 C16",
        "differential: no reference model for (a) and (b); " + NOTE_MODEL,
        technique="bounded exhaustive differential state enumeration of pairs of instantiations of the real code (explicit-state model checking with the second instantiation as the reference)",
    ),
    "C17": core(
        "c17",
        "states = operand pairs of the C04 plan (FULL^2 at 8 bits, reduced boundary sets beyond) x typed shift amounts x bnum-typed amounts below BITS; every trait form (four value/reference combinations, op-assign by value and by reference, for + - * / % & | ^, << >> with each of the 12 primitive amount types and BUint/BInt amounts, unary - and !, PartialEq/PartialOrd/Ord, Default, FromStr, Add/Div/Rem<digit>) against the inherent method, both under catch_unwind; all sequences of two assign operations from 14 against the by-value fold; Sum / Product of every sequence of length <= 4 over an 8-value alphabet (4681 sequences) against the left fold; both build profiles",
        "Every std trait implementation computes the same value and has the same panic outcome as the corresponding inherent method on every enumerated state, in both build modes (quick tier: 18 types - every digit width, narrow and many-digit shapes; thorough: every core configuration).",
        "DESIGN.md section 5 C17",
        "differential against the inherent methods (which C01-C08 decide against the model); " + NOTE_MODEL,
        technique="bounded exhaustive differential state enumeration: trait form vs inherent form of the real code on every state (explicit-state model checking, operation sequences up to depth 2 / fold length 4)",
        extra={"bin_thorough": "c17t"},
    ),
    "C18": core(
        "c18",
        "states = operand pairs as in C01-C03 (FULL^2 at 8 bits, FULL x GRID at 16, GRID^2 beyond) x root degrees {1..17, 31..33, 40, 63..65, BITS/2, BITS-1, BITS, BITS+1, 1000, 2^32-1} x shift amounts; Integer (div_floor, mod_floor, div_rem, div_mod_floor, div_ceil, gcd, lcm, is_even/odd, is_multiple_of, next/prev_multiple_of), Roots (sqrt, cbrt, nth_root), Signed and the PrimInt shifts against the model; every forwarding impl (Checked*, Wrapping*, Saturating*, Overflowing*, Euclid, Pow, MulAdd, PrimInt, Bounded/Zero/One, Num) against the inherent method; non-trivial = expected None / panic",
        "The num_traits / num_integer implementations return what each trait documents for the denoted value on every enumerated state; forwarders equal the inherent methods.",
        "DESIGN.md section 5 C18",
        NOTE_MODEL + "; bnum built with features numtraits, rand",
        pkg="vfeat",
    ),
    "C19": core(
        "c19",
        "states = (source value, primitive type, bnum type): for each of the 12 primitive integers its FULL / boundary value set plus the target's bounds +-2, FromPrimitive::from_* and ToPrimitive::to_* against representability, AsPrimitive::as_ in both directions against the As cast; from_f32 / from_f64 on the structured float patterns plus the floats around +-2^BITS, +-2^(BITS-1); to_f32 / to_f64 on values and rounding patterns; targets narrower than the source included (8, 16, 24 bits); non-trivial = expected None",
        "FromPrimitive / ToPrimitive return Some exactly for representable values (floats: truncated toward zero, None for NaN / infinities / out of range), AsPrimitive equals the As cast, on every enumerated state.",
        "DESIGN.md section 5 C19",
        NOTE_MODEL + "; bnum built with features numtraits, rand; quick tier: 9 pairs of bnum types incl. the narrow ones and widths between 64 and 128 bits, thorough: all core configurations",
        pkg="vfeat",
        extra={"bin_thorough": "c19t"},
    ),
    "C20": core(
        "c20",
        "the RNG is a scripted byte stream (zeros after exhaustion, so rejection loops terminate); states = (low, high, first word[, second word]): 8 bits: ALL ranges low <= high x ALL 256 first words x 6 samplers (Uniform::new_inclusive/new + sample, gen_range(a..=b), gen_range(a..b), sample_single_inclusive, sample_single), every second word after a rejected first word for the boundary ranges (deviation bound 1); 16 bits: boundary ranges x ALL 65536 words; 24 bits: selected ranges (sizes 3, 2^23, 2^23+1, 2^24, ...) x ALL 2^24 words; wider: boundary ranges x boundary words; oracle = membership in [low, high] and, wherever all first words are enumerated, the exact number of accepted first words per value is equal and >= 1; Standard / Fill / try_fill_slice = little-endian image of the script (slices of length 0..3)",
        "Every sampled value lies in the requested range and the accepted RNG words map onto the range with equal preimage counts (exactly counted up to 24 bits); Standard sampling and slice fills take every digit from the stream in little-endian order.",
        "DESIGN.md section 5 C20",
        "no reference model of the sampling algorithm: range membership and exact preimage counting only; bnum built with features numtraits, rand; uniformity is not enumerated above 24 bits; quick tier: 14 configurations (every digit type, N = 1 and multi-digit), thorough: all core configurations",
        pkg="vfeat",
        extra={"bin_thorough": "c20t"},
    ),
}

ALL = ["C%02d" % i for i in range(1, 21)]
NOT_APPLICABLE = [
    {"property_id": p, "reason": "check under construction in this session (not yet registered); the technique applies, see DESIGN.md section 5"}
    for p in ALL if p not in CHECKS
]

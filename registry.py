"""Registry of checks: one entry per claimed property (read by ./run)."""

COMMON_ASSUMPTIONS = [
    "x86-64 little-endian target, 64-bit usize, rustc 1.95 (stable) as installed in the sandbox",
    "trusted base: rustc/LLVM, core integer primitives (the model self-check compares every spec function with them before each run), the harness' digit<->byte repacking, from_digits/digits()/from_bits/to_bits as the only way values enter and leave the subject",
    "coverage is complete for the enumerated finite state sets only (see coverage.profiles[].configs); wider value spaces are covered by boundary-digit products, not completely (DESIGN.md section 12)",
]

BOTH = ["release", "relda"]


def core(bin_, rule, text, ref, note, technique=None, profiles=None, extra=None):
    d = {
        "pkg": "vcore",
        "bin": bin_,
        "profiles": profiles or BOTH,
        "rule": rule,
        "level_text": text,
        "design_ref": ref,
        "level_note": note,
        "technique": technique or "bounded exhaustive state enumeration of the real code against an exact-integer reference model (explicit-state model checking, depth-1 transitions from every initial state)",
    }
    if extra:
        d.update(extra)
    return d


NOTE_MODEL = "trusted: exact-integer reference model (BigRef / checked i128), self-checked against Rust's primitive integers on every run; rustc; both build profiles of the harness (debug assertions + overflow checks on / off) are run"

CHECKS = {
    "C01": core(
        "c01",
        "states = all (r0, r1[, carry]) register tuples of each configuration's plan (FULL^2 at 8 bits, FULL x GRID / FULL^2 at 16 bits, boundary-digit GRID^2 elsewhere), every operation of the add/sub/neg/abs alphabet executed on bnum and compared with exact integer arithmetic; non-trivial = transitions whose expected outcome is on the rare side (overflow flag set, None, panic of a strict form)",
        "Every add/sub/neg/abs/carrying/abs_diff/midpoint form of every listed configuration agrees with exact integer arithmetic on every enumerated operand tuple, in both build profiles. Complete for 8-bit types (and 16-bit in the thorough tier); boundary-digit products beyond.",
        "DESIGN.md section 5 C01",
        NOTE_MODEL,
    ),
}

ALL = ["C%02d" % i for i in range(1, 21)]
NOT_APPLICABLE = [
    {"property_id": p, "reason": "check under construction in this session (not yet registered); the technique applies, see DESIGN.md section 5"}
    for p in ALL if p not in CHECKS
]

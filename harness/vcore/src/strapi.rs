//! Uniform access to the string / radix / formatting API of the eight bnum families, so that the
//! engines of C10, C11, C12 can be written once.

use refmodel::{E_EMPTY, E_INVALID, E_NEG, E_OTHER, E_POS, E_ZERO};
use std::fmt::{Binary, Debug, Display, LowerExp, LowerHex, Octal, UpperExp, UpperHex};
use vengine::Subj;

pub trait AllFmt: Display + Debug + Binary + Octal + LowerHex + UpperHex + LowerExp + UpperExp {}
impl<T: Display + Debug + Binary + Octal + LowerHex + UpperHex + LowerExp + UpperExp> AllFmt for T {}

pub fn kind_code(k: &core::num::IntErrorKind) -> u8 {
    use core::num::IntErrorKind::*;
    match k {
        Empty => E_EMPTY,
        InvalidDigit => E_INVALID,
        PosOverflow => E_POS,
        NegOverflow => E_NEG,
        Zero => E_ZERO,
        _ => E_OTHER,
    }
}

pub trait StrApi: Subj + AllFmt {
    fn from_str_radix_(s: &str, r: u32) -> Result<Self, u8>;
    fn from_str_(s: &str) -> Result<Self, u8>;
    fn parse_bytes_(b: &[u8], r: u32) -> Option<Self>;
    fn parse_str_radix_(s: &str, r: u32) -> Self;
    fn from_radix_be_(b: &[u8], r: u32) -> Option<Self>;
    fn from_radix_le_(b: &[u8], r: u32) -> Option<Self>;
    fn to_str_radix_(&self, r: u32) -> String;
    fn to_radix_be_(&self, r: u32) -> Vec<u8>;
    fn to_radix_le_(&self, r: u32) -> Vec<u8>;
    fn from_be_slice_(b: &[u8]) -> Option<Self>;
    fn from_le_slice_(b: &[u8]) -> Option<Self>;
}

macro_rules! impl_strapi {
    ($T:ident) => {
        impl<const N: usize> StrApi for bnum::$T<N> {
            fn from_str_radix_(s: &str, r: u32) -> Result<Self, u8> {
                Self::from_str_radix(s, r).map_err(|e| kind_code(e.kind()))
            }
            fn from_str_(s: &str) -> Result<Self, u8> {
                <Self as core::str::FromStr>::from_str(s).map_err(|e| kind_code(e.kind()))
            }
            fn parse_bytes_(b: &[u8], r: u32) -> Option<Self> {
                Self::parse_bytes(b, r)
            }
            fn parse_str_radix_(s: &str, r: u32) -> Self {
                Self::parse_str_radix(s, r)
            }
            fn from_radix_be_(b: &[u8], r: u32) -> Option<Self> {
                Self::from_radix_be(b, r)
            }
            fn from_radix_le_(b: &[u8], r: u32) -> Option<Self> {
                Self::from_radix_le(b, r)
            }
            fn to_str_radix_(&self, r: u32) -> String {
                self.to_str_radix(r)
            }
            fn to_radix_be_(&self, r: u32) -> Vec<u8> {
                self.to_radix_be(r)
            }
            fn to_radix_le_(&self, r: u32) -> Vec<u8> {
                self.to_radix_le(r)
            }
            fn from_be_slice_(b: &[u8]) -> Option<Self> {
                Self::from_be_slice(b)
            }
            fn from_le_slice_(b: &[u8]) -> Option<Self> {
                Self::from_le_slice(b)
            }
        }
    };
}
impl_strapi!(BUintD8);
impl_strapi!(BIntD8);
impl_strapi!(BUintD16);
impl_strapi!(BIntD16);
impl_strapi!(BUintD32);
impl_strapi!(BIntD32);
impl_strapi!(BUint);
impl_strapi!(BInt);

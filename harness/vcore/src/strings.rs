//! Engines for C10 (parsing) and C11 (radix output): every string / digit slice / value of a
//! finite family, compared with an independent reference parser / printer over exact integers.

use crate::strapi::StrApi;
use refmodel::sets::{self, Tier};
use refmodel::{BigRef, Expect, Obs, TypeInfo, E_EMPTY, E_INVALID, E_NEG, E_POS};
use vengine::{par_chunks, Local, Run};

type Z = BigRef;

fn big(v: i128) -> BigRef {
    BigRef::from_i128(v)
}

/// bytes in order, as hex (state token of the string engines)
pub fn bhex(b: &[u8]) -> String {
    let mut s = String::from("s:");
    for x in b {
        s.push_str(&format!("{:02x}", x));
    }
    s
}
pub fn unbhex(s: &str) -> Vec<u8> {
    let s = s.trim_start_matches("s:");
    (0..s.len()).step_by(2).map(|i| u8::from_str_radix(&s[i..i + 2], 16).unwrap()).collect()
}

fn char_digit(b: u8) -> Option<u32> {
    match b {
        b'0'..=b'9' => Some((b - b'0') as u32),
        b'a'..=b'z' => Some((b - b'a') as u32 + 10),
        b'A'..=b'Z' => Some((b - b'A') as u32 + 10),
        _ => None,
    }
}

fn type_max(ti: TypeInfo) -> Z {
    ti.max::<Z>()
}

/// The integer grammar of the statement: optional sign ('+', or '-' for signed types) followed by
/// one or more digits of the radix.
pub fn spec_parse(bytes: &[u8], r: u32, ti: TypeInfo) -> Expect<Z> {
    if bytes.is_empty() {
        return Expect::Is(Obs::R(Err(E_EMPTY)));
    }
    let (neg, rest) = match bytes[0] {
        b'+' => (false, &bytes[1..]),
        b'-' if ti.signed => (true, &bytes[1..]),
        _ => (false, bytes),
    };
    if rest.is_empty() {
        return Expect::Is(Obs::R(Err(E_INVALID)));
    }
    let mut digits = Vec::with_capacity(rest.len());
    let mut valid = true;
    for &b in rest {
        match char_digit(b) {
            Some(d) if d < r => digits.push(d as u8),
            _ => {
                valid = false;
                break;
            }
        }
    }
    if valid {
        let mut v = BigRef::from_digits_be(&digits, r);
        if neg {
            v = v.neg();
        }
        if ti.fits(&v) {
            Expect::Is(Obs::R(Ok(v)))
        } else {
            Expect::Is(Obs::R(Err(if neg { E_NEG } else { E_POS })))
        }
    } else {
        // never accepted; exactly InvalidDigit when the digits are too few to overflow the type
        let l = rest.len() as u64;
        let cap = big(r as i128).pow(l).sub(&big(1));
        if cap <= type_max(ti) {
            Expect::Is(Obs::R(Err(E_INVALID)))
        } else {
            Expect::AnyErr
        }
    }
}

/// from_radix_be / from_radix_le: digit values, radix 2..=256; the value is the unsigned number,
/// reinterpreted as the bit pattern for signed types
pub fn spec_from_radix(digits: &[u8], r: u32, be: bool, ti: TypeInfo) -> Expect<Z> {
    if digits.iter().any(|d| *d as u32 >= r) {
        return Expect::Is(Obs::OV(None));
    }
    let mut d = digits.to_vec();
    if !be {
        d.reverse();
    }
    let v = BigRef::from_digits_be(&d, r);
    if v.bit_len() <= ti.bits as u64 {
        Expect::Is(Obs::OV(Some(ti.wrap(&v))))
    } else {
        Expect::Is(Obs::OV(None))
    }
}

fn res_obs<T: StrApi>(r: Result<T, u8>) -> Obs<Z> {
    Obs::R(r.map(|t| t.z::<Z>()))
}
fn opt_obs<T: StrApi>(r: Option<T>) -> Obs<Z> {
    Obs::OV(r.map(|t| t.z::<Z>()))
}

/// the transitions taken from one (string, radix) state
fn parse_transitions<T: StrApi>(config: &str, bytes: &[u8], r: u32, l: &mut Local) {
    let ti = T::ti();
    let e = spec_parse(bytes, r, ti);
    let st = || vec![bhex(bytes), r.to_string()];
    l.enter(config, "parse_bytes", st, r as u64);
    // parse_bytes accepts arbitrary bytes
    let eo: Expect<Z> = match &e {
        Expect::Is(Obs::R(Ok(v))) => Expect::Is(Obs::OV(Some(v.clone()))),
        _ => Expect::Is(Obs::OV(None)),
    };
    let o = catch(|| opt_obs(T::parse_bytes_(bytes, r)));
    l.check(config, "parse_bytes", st, r as u64, &eo, &o);
    if let Ok(s) = std::str::from_utf8(bytes) {
        let o = catch(|| res_obs(T::from_str_radix_(s, r)));
        l.check(config, "from_str_radix", st, r as u64, &e, &o);
        if r == 10 {
            let o = catch(|| res_obs(T::from_str_(s)));
            l.check(config, "from_str", st, r as u64, &e, &o);
        }
        if let Expect::Is(Obs::R(Ok(v))) = &e {
            let ev: Expect<Z> = Expect::Is(Obs::V(v.clone()));
            let o = catch(|| Obs::V(T::parse_str_radix_(s, r).z::<Z>()));
            l.check(config, "parse_str_radix", st, r as u64, &ev, &o);
        }
    }
}

fn slice_transitions<T: StrApi>(config: &str, digits: &[u8], r: u32, l: &mut Local) {
    let ti = T::ti();
    let st = || vec![bhex(digits), r.to_string()];
    l.enter(config, "from_radix_be", st, r as u64);
    let e = spec_from_radix(digits, r, true, ti);
    let o = catch(|| opt_obs(T::from_radix_be_(digits, r)));
    l.check(config, "from_radix_be", st, r as u64, &e, &o);
    let e = spec_from_radix(digits, r, false, ti);
    let o = catch(|| opt_obs(T::from_radix_le_(digits, r)));
    l.check(config, "from_radix_le", st, r as u64, &e, &o);
}

fn catch(f: impl FnOnce() -> Obs<Z>) -> Obs<Z> {
    match std::panic::catch_unwind(std::panic::AssertUnwindSafe(f)) {
        Ok(o) => o,
        Err(_) => Obs::Panic,
    }
}

fn top_digit_chars(r: u32) -> (u8, Option<u8>) {
    let t = r - 1;
    if t < 10 {
        (b'0' + t as u8, None)
    } else {
        (b'a' + (t - 10) as u8, Some(b'A' + (t - 10) as u8))
    }
}
/// the first character that is not a digit of the radix
fn first_invalid_char(r: u32) -> u8 {
    if r < 10 {
        b'0' + r as u8
    } else if r < 36 {
        b'a' + (r - 10) as u8
    } else {
        b'{'
    }
}

/// all strings over `alpha` (byte strings; elements may be multi-byte) of 0..=len elements
fn all_strings(alpha: &[Vec<u8>], len: usize) -> Vec<Vec<u8>> {
    let mut out: Vec<Vec<u8>> = vec![Vec::new()];
    let mut layer: Vec<Vec<u8>> = vec![Vec::new()];
    for _ in 0..len {
        let mut next = Vec::with_capacity(layer.len() * alpha.len());
        for s in &layer {
            for a in alpha {
                let mut t = s.clone();
                t.extend_from_slice(a);
                next.push(t);
            }
        }
        out.extend(next.iter().cloned());
        layer = next;
    }
    out
}

/// digits(MAX) in radix r
fn capacity(ti: TypeInfo, r: u32) -> usize {
    type_max(ti).mag_digits_le(r).len()
}

fn radices_str(tier: Tier, bits: u32) -> Vec<u32> {
    if tier == Tier::Thorough || bits <= 16 {
        (2..=36).collect()
    } else {
        vec![2, 3, 4, 5, 7, 8, 9, 10, 11, 15, 16, 17, 31, 32, 33, 35, 36]
    }
}

/// Values whose base-r numeral has structure: powers of the radix and their neighbours, numerals
/// with long interior runs of zeros (d * r^k + e), and values whose most significant machine digit is
/// itself a power of the radix.  Unsigned values below 2^bits.
pub fn radix_directed(bits: u32, w: u32, r: u32) -> Vec<Z> {
    let lim = BigRef::pow2(bits as u64);
    let rb = big(r as i128);
    let mut out: Vec<Z> = Vec::new();
    let mut push = |v: Z| {
        if !v.is_neg() && v < lim {
            out.push(v);
        }
    };
    // powers and neighbours, interior zeros
    let mut p = big(1);
    let mut k = 0u32;
    let r2 = rb.mul(&rb);
    while p < lim && k < 9000 {
        for d in [-1i128, 0, 1] {
            push(p.add(&big(d)));
        }
        push(p.mul(&big(2)));
        push(p.mul(&big(r as i128 - 1)).add(&big(1)));
        // d * r^k + e : a non-zero head, a run of zeros, a non-zero tail
        for head in [big(1), rb.add(&big(1)), r2.add(&big(1)), big(739)] {
            for tail in [big(1), rb.sub(&big(1)), r2.sub(&big(1)), big(42)] {
                if tail < p {
                    push(head.mul(&p).add(&tail));
                }
            }
        }
        p = p.mul(&rb);
        k += 1;
    }
    // most significant machine digit equal to a power of the radix (and +-1)
    let n = bits / w;
    let mut q = rb.clone();
    while q.bit_len() <= w as u64 {
        for j in 1..n {
            let sh = (w * j) as u64;
            for d in [-1i128, 0, 1] {
                let top = q.add(&big(d)).shl(sh);
                push(top.clone());
                push(top.add(&big(1)));
                push(top.add(&BigRef::pow2(sh).sub(&big(1))));
                push(top.add(&BigRef::pow2(sh).mod_pow2(sh).add(&big(0x1234_5678_9abc_def0i128)).mod_pow2(sh)));
            }
        }
        q = q.mul(&rb);
    }
    out.sort();
    out.dedup();
    out
}

/// C10 for one configuration
pub fn parse_check<T: StrApi>(run: &mut Run) {
    let config = T::type_name();
    let ti = T::ti();
    // replay
    for op in ["parse_bytes", "from_str_radix", "from_str", "parse_str_radix"] {
        if let Some((st, _)) = run.replay_target(&config, op) {
            let bytes = unbhex(&st[0]);
            let r: u32 = st[1].parse().unwrap();
            let mut l = Local::default();
            parse_transitions::<T>(&config, &bytes, r, &mut l);
            println!("replay {} {} {:?} radix {}", config, op, String::from_utf8_lossy(&bytes), r);
            let hit = l.viols.iter().find(|v| v.op == op);
            match hit {
                Some(v) => println!("  expected: {}\n  observed: {}\nREPRODUCED", v.expected, v.observed),
                None => println!("NOT-REPRODUCED"),
            }
            return;
        }
    }
    for op in ["from_radix_be", "from_radix_le"] {
        if let Some((st, _)) = run.replay_target(&config, op) {
            let digits = unbhex(&st[0]);
            let r: u32 = st[1].parse().unwrap();
            let mut l = Local::default();
            slice_transitions::<T>(&config, &digits, r, &mut l);
            println!("replay {} {} {:?} radix {}", config, op, digits, r);
            match l.viols.iter().find(|v| v.op == op) {
                Some(v) => println!("  expected: {}\n  observed: {}\nREPRODUCED", v.expected, v.observed),
                None => println!("NOT-REPRODUCED"),
            }
            return;
        }
    }
    if run.in_replay() || !run.wants(&config) {
        return;
    }
    if run.over_deadline() {
        run.cap_hit = true;
        return;
    }
    let tier = run.tier;
    let threads = run.threads;
    let bits = T::BITS;
    let nb = T::bytes();

    if T::N > 100 {
        // the widest configurations (8192 bits): for every radix the numerals of the range ends and their
        // neighbours, of the longest numerals (r^(cap-1) - 1, r^(cap-1), r^cap - 1, r^cap), of 2^BITS and of a
        // dense value; canonical, "+0" + upper case, and with '-'; the empty string and a lone sign
        let ti = T::ti();
        let (max, min) = (ti.max::<Z>(), ti.min::<Z>());
        let dense = BigRef::from_le_bytes_unsigned(&sets::huge(T::DIGIT_BITS, T::N)[7]).shr_floor(2);
        let cfg = config.clone();
        let states = std::sync::atomic::AtomicU64::new(0);
        let rad: Vec<u32> = (2..=36).collect();
        let total = par_chunks(threads, rad.len(), |lo, hi, l| for &r in &rad[lo..hi] {
            let cap = capacity(ti, r) as u64;
            let rz = big(r as i128);
            let mut vs: Vec<BigRef> = vec![big(0), big(1), max.clone(), max.sub(&big(1)), max.add(&big(1)), min.clone(), min.sub(&big(1)), min.add(&big(1)), BigRef::pow2(bits as u64), dense.clone()];
            for k in [cap - 1, cap] {
                let p = rz.pow(k);
                vs.push(p.sub(&big(1)));
                vs.push(p);
            }
            let mut strings: Vec<Vec<u8>> = vec![Vec::new(), b"+".to_vec(), b"-".to_vec()];
            for v in &vs {
                let body = v.abs().to_str_radix(r);
                if v.is_neg() {
                    strings.push(format!("-{}", body).into_bytes());
                    strings.push(format!("-00{}", body.to_uppercase()).into_bytes());
                } else {
                    strings.push(body.clone().into_bytes());
                    strings.push(format!("+0{}", body.to_uppercase()).into_bytes());
                    strings.push(format!("-{}", body).into_bytes());
                }
            }
            let strings = sets::dedup(strings);
            states.fetch_add(strings.len() as u64, std::sync::atomic::Ordering::Relaxed);
            for s in &strings {
                parse_transitions::<T>(&cfg, s, r, l);
            }
        });
        run.merge(&config, "HUGE: numerals of the range ends, longest numerals, 2^BITS, a dense value x every radix 2..=36", "parse (value-directed)", states.into_inner(), total);
        let _ = (tier, nb);
        return;
    }

    // ---- (a) all short strings over the per-radix character alphabet --------------------
    let len_full = if bits <= 16 { 4 } else { 3 };
    let states = std::sync::atomic::AtomicU64::new(0);
    let rad_a = radices_str(tier, bits);
    let cfg = config.clone();
    let total = par_chunks(threads, rad_a.len(), |lo, hi, l| for &r in &rad_a[lo..hi] {
        let (tl, tu) = top_digit_chars(r);
        let mut alpha: Vec<Vec<u8>> = vec![vec![b'0'], vec![b'1'], vec![tl]];
        if let Some(u) = tu {
            alpha.push(vec![u]);
        }
        alpha.push(vec![first_invalid_char(r)]);
        for c in [b'+', b'-', b' ', b'_'] {
            alpha.push(vec![c]);
        }
        alpha.push("é".as_bytes().to_vec());
        let mut strings = all_strings(&alpha, len_full);
        // longer strings over the reduced alphabet {0, 1, top, +, -, invalid}
        let small: Vec<Vec<u8>> = vec![vec![b'0'], vec![b'1'], vec![tl], vec![b'+'], vec![b'-'], vec![first_invalid_char(r)]];
        let extra_len = if bits <= 16 {
            if r <= 4 {
                6
            } else {
                5
            }
        } else {
            4
        };
        strings.extend(all_strings(&small, extra_len).into_iter().filter(|s| s.len() > len_full));
        // every byte value as a character, alone and next to valid digits / signs
        for b in 0..=255u8 {
            for pat in [vec![b], vec![b, b'1'], vec![b'1', b], vec![b'+', b], vec![b'-', b], vec![b'1', b, b'0'], vec![b, b]] {
                strings.push(pat);
            }
        }
        // every non-ASCII / boundary char as UTF-8
        for c in ['/', ':', '@', '[', '`', '{', '\u{7f}', '\u{80}', '\u{ff}', '\u{660}', '１', '\u{10ffff}'] {
            let mut buf = [0u8; 4];
            let s = c.encode_utf8(&mut buf).as_bytes().to_vec();
            strings.push(s.clone());
            let mut t = vec![b'1'];
            t.extend_from_slice(&s);
            strings.push(t);
        }
        let strings = sets::dedup(strings);
        states.fetch_add(strings.len() as u64, std::sync::atomic::Ordering::Relaxed);
        for s in &strings {
            parse_transitions::<T>(&cfg, s, r, l);
        }
    });
    run.merge(&config, "(a) all short strings per radix", "parse (short strings)", states.into_inner(), total);

    // ---- (b) digit strings around the overflow boundary, every count of leading zeros ---
    let states = std::sync::atomic::AtomicU64::new(0);
    let radices_b: Vec<u32> = if tier == Tier::Thorough { (2..=36).collect() } else { vec![2, 3, 4, 7, 8, 10, 16, 32, 36] };
    let total = par_chunks(threads, radices_b.len(), |lo, hi, l| for &r in &radices_b[lo..hi] {
        let cap = capacity(ti, r);
        let (tl, _) = top_digit_chars(r);
        let mut alpha: Vec<Vec<u8>> = vec![vec![b'0'], vec![b'1'], vec![tl]];
        alpha = sets::dedup(alpha);
        // bodies: all strings over {0, 1, top} up to cap+1 digits, bounded in number
        let mut blen = (cap + 1).min(if bits <= 16 { 10 } else { 6 });
        while (alpha.len() as u64).pow(blen as u32) > 3000 && blen > 2 {
            blen -= 1;
        }
        let bodies = all_strings(&alpha, blen);
        let mut zero_counts: Vec<usize> = (0..=(cap + 2).min(if bits <= 64 { 70 } else { 12 })).collect();
        zero_counts.extend([cap, cap + 1, 2 * cap + 1]);
        zero_counts.sort();
        zero_counts.dedup();
        let mut strings: Vec<Vec<u8>> = Vec::new();
        for sign in ["", "+", "-"] {
            for &k in &zero_counts {
                for b in &bodies {
                    // the full-capacity tail: zeros, then body, then padded with top digits so that
                    // the total digit count lands on cap-1, cap, cap+1 as well
                    let mut s = sign.as_bytes().to_vec();
                    s.extend(std::iter::repeat(b'0').take(k));
                    s.extend_from_slice(b);
                    strings.push(s);
                }
            }
        }
        let strings = sets::dedup(strings);
        states.fetch_add(strings.len() as u64, std::sync::atomic::Ordering::Relaxed);
        for s in &strings {
            parse_transitions::<T>(&cfg, s, r, l);
        }
    });
    run.merge(&config, "(b) leading zeros x digit bodies", "parse (leading zeros)", states.into_inner(), total);

    // ---- (c) value-directed numerals ------------------------------------------------------
    let mut vals: Vec<BigRef> = if bits <= 16 && tier == Tier::Thorough {
        sets::full(bits).iter().map(|b| BigRef::from_le_bytes(b, ti.signed)).collect()
    } else {
        let mut v: Vec<Vec<u8>> = sets::structured(T::DIGIT_BITS, T::N, Tier::Quick);
        if bits <= 16 {
            v = sets::full(bits).into_iter().step_by(if bits == 8 { 1 } else { 61 }).collect();
        }
        if v.len() > 600 {
            v.truncate(600);
        }
        v.iter().map(|b| BigRef::from_le_bytes(b, ti.signed)).collect()
    };
    // beyond the range: MAX+1.., MIN-1.., (MAX+1)*r, 2^BITS * r^j
    let max = ti.max::<Z>();
    let min = ti.min::<Z>();
    for d in 0..=2i128 {
        vals.push(max.add(&big(d)));
        vals.push(max.sub(&big(d)));
        vals.push(min.sub(&big(d)));
        vals.push(min.add(&big(d)));
    }
    vals.push(BigRef::pow2(bits as u64));
    vals.push(BigRef::pow2(bits as u64).neg());
    vals.push(BigRef::pow2(bits as u64 + 1));
    vals.push(BigRef::pow2(2 * bits as u64));
    let states = std::sync::atomic::AtomicU64::new(0);
    // every radix for the value-directed numerals (chunk sizes of the parser depend on radix and digit width)
    let rad_c: Vec<u32> = (2..=36).collect();
    let total = par_chunks(threads, rad_c.len(), |lo, hi, l| for &r in &rad_c[lo..hi] {
        let cap = capacity(ti, r);
        let mut strings: Vec<Vec<u8>> = Vec::new();
        let mut vs = vals.clone();
        vs.push(max.add(&big(1)).mul(&big(r as i128)));
        vs.push(BigRef::pow2(bits as u64).mul(&big(r as i128)).mul(&big(r as i128)));
        for v in &vs {
            let body = v.abs().to_str_radix(r);
            let neg = v.is_neg();
            for k in [0usize, 1, 2, cap, cap + 1, 2 * cap + 1] {
                for upper in [false, true] {
                    for plus in [false, true] {
                        if neg && plus {
                            continue;
                        }
                        let mut s = String::new();
                        if neg {
                            s.push('-');
                        } else if plus {
                            s.push('+');
                        }
                        for _ in 0..k {
                            s.push('0');
                        }
                        if upper {
                            s.push_str(&body.to_uppercase());
                        } else {
                            s.push_str(&body);
                        }
                        strings.push(s.into_bytes());
                    }
                }
            }
            if !neg {
                // "-v" for every non-negative v as well (NegOverflow / '-' on unsigned)
                let mut s = String::from("-");
                s.push_str(&body);
                strings.push(s.into_bytes());
            }
        }
        // numerals with structure in this radix (powers, interior zero runs, power-valued top digit):
        // canonical form, and upper case with '+' and one leading zero
        let directed = radix_directed(bits, T::DIGIT_BITS, r);
        let stride = (directed.len() / 300).max(1);
        for v in directed.into_iter().step_by(stride) {
            let body = v.to_str_radix(r);
            strings.push(body.clone().into_bytes());
            strings.push(format!("+0{}", body.to_uppercase()).into_bytes());
            if ti.signed {
                strings.push(format!("-{}", body).into_bytes());
            }
        }
        let strings = sets::dedup(strings);
        states.fetch_add(strings.len() as u64, std::sync::atomic::Ordering::Relaxed);
        for s in &strings {
            parse_transitions::<T>(&cfg, s, r, l);
        }
    });
    run.merge(&config, "(c) numerals of boundary values", "parse (value-directed)", states.into_inner(), total);

    // ---- (d) digit slices -----------------------------------------------------------------
    let radices_d: Vec<u32> = if tier == Tier::Thorough { (2..=256).collect() } else { vec![2, 3, 4, 7, 8, 10, 16, 17, 32, 36, 37, 64, 100, 128, 255, 256] };
    let states = std::sync::atomic::AtomicU64::new(0);
    let dvals: Vec<BigRef> = {
        let mut v: Vec<BigRef> = sets::structured(T::DIGIT_BITS, T::N, Tier::Quick).iter().take(300).map(|b| BigRef::from_le_bytes_unsigned(b)).collect();
        let p = BigRef::pow2(bits as u64);
        v.extend([p.sub(&big(1)), p.clone(), p.add(&big(1)), p.mul(&big(2)), BigRef::pow2(bits as u64 - 1)]);
        v
    };
    let total = par_chunks(threads, radices_d.len(), |lo, hi, l| for &r in &radices_d[lo..hi] {
        let mut alpha: Vec<u8> = vec![0, 1, (r - 1) as u8];
        if r <= 255 {
            alpha.push(r as u8);
        }
        alpha.push(255);
        alpha.sort();
        alpha.dedup();
        let a2: Vec<Vec<u8>> = alpha.iter().map(|x| vec![*x]).collect();
        let mut slices = all_strings(&a2, if bits <= 16 { 5 } else { 4 });
        let cap = {
            let m = BigRef::pow2(bits as u64).sub(&big(1));
            m.mag_digits_le(r).len()
        };
        for v in &dvals {
            let mut d = v.mag_digits_le(r);
            d.reverse(); // big-endian
            for k in [0usize, 1, 2, cap, cap + 1, 2 * cap + 1] {
                let mut s = vec![0u8; k];
                s.extend_from_slice(&d);
                slices.push(s.clone());
                s.reverse(); // the same digits as a little-endian slice
                slices.push(s);
            }
            // one digit replaced by an invalid one
            if r <= 255 && !d.is_empty() {
                for pos in [0, d.len() / 2, d.len() - 1] {
                    let mut s = d.clone();
                    s[pos] = r as u8;
                    slices.push(s);
                }
            }
        }
        let slices = sets::dedup(slices);
        states.fetch_add(slices.len() as u64, std::sync::atomic::Ordering::Relaxed);
        for s in &slices {
            slice_transitions::<T>(&cfg, s, r, l);
        }
    });
    let _ = nb;
    run.merge(&config, "(d) digit slices", "from_radix_be/le", states.into_inner(), total);
}

// =========================================== C11 ==========================================

fn radix_out_transitions<T: StrApi>(config: &str, x: T, zx: &Z, r: u32, l: &mut Local) {
    let ti = T::ti();
    let st = || vec![vengine::hex(&x.le()), r.to_string()];
    l.enter(config, "to_radix_le", st, r as u64);
    if r <= 36 {
        let e: Expect<Z> = Expect::Is(Obs::S(zx.to_str_radix(r)));
        let o = catch(|| Obs::S(x.to_str_radix_(r)));
        l.check(config, "to_str_radix", st, r as u64, &e, &o);
        // parse(print(x)) == x through the real parser
        let e: Expect<Z> = Expect::Is(Obs::R(Ok(zx.clone())));
        let o = catch(|| res_obs(T::from_str_radix_(&x.to_str_radix_(r), r)));
        l.check(config, "from_str_radix(to_str_radix)", st, r as u64, &e, &o);
    }
    // digit sequences of the bit pattern
    let pat = zx.mod_pow2(ti.bits as u64);
    let mut le = pat.mag_digits_le(r);
    if r == 256 {
        le = pat.mag_le_bytes();
    }
    if le.is_empty() {
        le.push(0);
    }
    let mut be = le.clone();
    be.reverse();
    let e: Expect<Z> = Expect::Is(Obs::By(le));
    let o = catch(|| Obs::By(x.to_radix_le_(r)));
    l.check(config, "to_radix_le", st, r as u64, &e, &o);
    let e: Expect<Z> = Expect::Is(Obs::By(be));
    let o = catch(|| Obs::By(x.to_radix_be_(r)));
    l.check(config, "to_radix_be", st, r as u64, &e, &o);
    let e: Expect<Z> = Expect::Is(Obs::OV(Some(zx.clone())));
    let o = catch(|| opt_obs(T::from_radix_be_(&x.to_radix_be_(r), r)));
    l.check(config, "from_radix_be(to_radix_be)", st, r as u64, &e, &o);
    let o = catch(|| opt_obs(T::from_radix_le_(&x.to_radix_le_(r), r)));
    l.check(config, "from_radix_le(to_radix_le)", st, r as u64, &e, &o);
}

/// C11 for one configuration: values x radices 2..=256
pub fn radix_out_check<T: StrApi>(run: &mut Run) {
    let config = T::type_name();
    for op in ["to_str_radix", "from_str_radix(to_str_radix)", "to_radix_le", "to_radix_be", "from_radix_be(to_radix_be)", "from_radix_le(to_radix_le)"] {
        if let Some((st, _)) = run.replay_target(&config, op) {
            let x = T::from_le(&vengine::unhex(&st[0]));
            let r: u32 = st[1].parse().unwrap();
            let mut l = Local::default();
            radix_out_transitions::<T>(&config, x, &x.z::<Z>(), r, &mut l);
            println!("replay {} {} {} radix {}", config, op, st[0], r);
            match l.viols.iter().find(|v| v.op == op) {
                Some(v) => println!("  expected: {}\n  observed: {}\nREPRODUCED", v.expected, v.observed),
                None => println!("NOT-REPRODUCED"),
            }
            return;
        }
    }
    if run.in_replay() || !run.wants(&config) {
        return;
    }
    if run.over_deadline() {
        run.cap_hit = true;
        return;
    }
    let tier = run.tier;
    let bits = T::BITS;
    let huge = T::N > 100;
    let (label, vals): (&str, Vec<Vec<u8>>) = if huge {
        // the widest configurations (8192 bits): a dozen dense / sparse values against twelve radices
        ("HUGE: 14 dense / sparse values x 12 radices", sets::huge(T::DIGIT_BITS, T::N).into_iter().take(14).collect())
    } else if bits <= 16 {
        ("FULL x radices", sets::full(bits))
    } else if bits == 24 && tier == Tier::Thorough {
        ("FULL(24) x 12 radices + GRID x all", sets::full(24))
    } else {
        ("GRID x radices", sets::structured(T::DIGIT_BITS, T::N, tier))
    };
    let all: Vec<u32> = (2..=256).collect();
    let few: Vec<u32> = vec![2, 3, 7, 8, 10, 16, 32, 36, 64, 128, 255, 256];
    let radices: &Vec<u32> = if (bits == 24 && tier == Tier::Thorough) || huge {
        &few
    } else if tier == Tier::Thorough || bits <= 64 || vals.len() <= 1200 {
        &all
    } else {
        &all
    };
    let vs: Vec<T> = vals.iter().map(|b| T::from_le(b)).collect();
    let cfg = config.clone();
    let l = par_chunks(run.threads, vs.len(), |lo, hi, l| {
        for x in &vs[lo..hi] {
            let zx = x.z::<Z>();
            for &r in radices.iter() {
                radix_out_transitions::<T>(&cfg, *x, &zx, r, l);
            }
        }
    });
    run.merge(&config, label, "radix output", vs.len() as u64 * radices.len() as u64, l);
    if huge {
        if !T::SIGNED {
            // every bit length: 2^b - 1 in decimal (numeral-length estimates derived from the bit length go
            // wrong at isolated bit lengths only)
            let all_b: Vec<u64> = (1..=bits as u64).collect();
            let one = Z::from_i128(1);
            let l = par_chunks(run.threads, all_b.len(), |lo, hi, l| {
                for &b in &all_b[lo..hi] {
                    let zx = Z::pow2(b).sub(&one);
                    let x = T::from_z(&zx);
                    let st = || vec![vengine::hex(&x.le()), "10".to_string()];
                    l.enter(&cfg, "to_radix_le", st, 10);
                    let e: Expect<Z> = Expect::Is(Obs::S(zx.to_str_radix(10)));
                    let o = catch(|| Obs::S(x.to_str_radix_(10)));
                    l.check(&cfg, "to_str_radix", st, 10, &e, &o);
                }
            });
            run.merge(&config, "HUGE: 2^b - 1 for every bit length b, decimal", "radix output", all_b.len() as u64, l);
        }
        return;
    }
    // directed values per radix: powers of the radix, interior zero runs, power-valued top digits
    let ti = T::ti();
    let l = par_chunks(run.threads, all.len(), |lo, hi, l| {
        for &r in &all[lo..hi] {
            for v in radix_directed(bits, T::DIGIT_BITS, r) {
                // the bit pattern, and (signed) also its negation
                let x = T::from_z(&ti.wrap(&v));
                radix_out_transitions::<T>(&cfg, x, &x.z::<Z>(), r, l);
                if T::SIGNED {
                    let y = T::from_z(&ti.wrap(&v.neg()));
                    radix_out_transitions::<T>(&cfg, y, &y.z::<Z>(), r, l);
                }
            }
        }
    });
    let ntr = l.transitions;
    run.merge(&config, "directed: r^k +- 1, d*r^k + e, top digit = r^p, per radix", "radix output", ntr / 5, l);
    if bits == 24 && tier == Tier::Thorough {
        // the boundary set against every radix as well
        let vs: Vec<T> = sets::structured(T::DIGIT_BITS, T::N, tier).iter().map(|b| T::from_le(b)).collect();
        let l = par_chunks(run.threads, vs.len(), |lo, hi, l| {
            for x in &vs[lo..hi] {
                let zx = x.z::<Z>();
                for &r in all.iter() {
                    radix_out_transitions::<T>(&cfg, *x, &zx, r, l);
                }
            }
        });
        run.merge(&config, "GRID x all radices", "radix output", vs.len() as u64 * 255, l);
    }
}

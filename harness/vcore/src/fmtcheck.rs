//! C12: formatting traits x flag combinations x widths, compared with what Rust prints for a
//! primitive holding the same value (<= 128 bits) and with a wrapper that hands the model's numeral
//! to `Formatter::pad_integral` (wider).  The wrapper itself is validated against the primitives.

use crate::fmt_table::{combo_spec, fmt_one, N_COMBOS, TRAITS};
use crate::strapi::StrApi;
use refmodel::sets::{self, Tier};
use refmodel::{BigRef, Expect, Obs, TypeInfo};
use std::fmt;
use vengine::{par_chunks, Local, Run};

type Z = BigRef;

/// What Rust's integer formatting rules give for the value `z` of a type `ti`, for any width:
/// signed decimal for Display/Debug, the two's-complement pattern for the radix forms,
/// d.ddde<k> with trailing zeros trimmed for the exponent forms.
pub struct Wide {
    nonneg: bool,
    dec: String,
    bin: String,
    oct: String,
    hex: String,
    hex_upper: String,
    exp_lower: String,
    exp_upper: String,
}
impl Wide {
    /// the eight numerals of one value, computed once (the model's radix conversion is the costly part)
    pub fn new(z: &Z, ti: TypeInfo) -> Wide {
        let pattern = z.mod_pow2(ti.bits as u64);
        let dec = z.abs().to_str_radix(10);
        let hex = pattern.to_str_radix(16);
        Wide {
            nonneg: !z.is_neg(),
            bin: pattern.to_str_radix(2),
            oct: pattern.to_str_radix(8),
            hex_upper: hex.to_uppercase(),
            hex,
            exp_lower: Self::exp_body(&dec, 'e'),
            exp_upper: Self::exp_body(&dec, 'E'),
            dec,
        }
    }
    fn exp_body(dec: &str, e: char) -> String {
        if dec == "0" {
            return format!("0{}0", e);
        }
        let exp = dec.len() - 1;
        let t = dec.trim_end_matches('0');
        if t.len() == 1 {
            format!("{}{}{}", t, e, exp)
        } else {
            format!("{}.{}{}{}", &t[0..1], &t[1..], e, exp)
        }
    }
}
impl fmt::Display for Wide {
    fn fmt(&self, f: &mut fmt::Formatter) -> fmt::Result {
        f.pad_integral(self.nonneg, "", &self.dec)
    }
}
impl fmt::Debug for Wide {
    fn fmt(&self, f: &mut fmt::Formatter) -> fmt::Result {
        fmt::Display::fmt(self, f)
    }
}
impl fmt::Binary for Wide {
    fn fmt(&self, f: &mut fmt::Formatter) -> fmt::Result {
        f.pad_integral(true, "0b", &self.bin)
    }
}
impl fmt::Octal for Wide {
    fn fmt(&self, f: &mut fmt::Formatter) -> fmt::Result {
        f.pad_integral(true, "0o", &self.oct)
    }
}
impl fmt::LowerHex for Wide {
    fn fmt(&self, f: &mut fmt::Formatter) -> fmt::Result {
        f.pad_integral(true, "0x", &self.hex)
    }
}
impl fmt::UpperHex for Wide {
    fn fmt(&self, f: &mut fmt::Formatter) -> fmt::Result {
        f.pad_integral(true, "0x", &self.hex_upper)
    }
}
impl fmt::LowerExp for Wide {
    fn fmt(&self, f: &mut fmt::Formatter) -> fmt::Result {
        f.pad_integral(self.nonneg, "", &self.exp_lower)
    }
}
impl fmt::UpperExp for Wide {
    fn fmt(&self, f: &mut fmt::Formatter) -> fmt::Result {
        f.pad_integral(self.nonneg, "", &self.exp_upper)
    }
}

/// the oracle string
fn expected(z: &Z, ti: TypeInfo, wide: Option<&Wide>, tr: usize, combo: usize, w: usize) -> String {
    if let Some(wd) = wide {
        return fmt_one(wd, tr, combo, w);
    }
    if ti.bits <= 128 {
        // the primitive holding the same value; radix forms print the BITS-bit pattern
        if tr >= 2 && tr <= 5 {
            let p = z.mod_pow2(ti.bits as u64).to_u128().unwrap();
            fmt_one(&p, tr, combo, w)
        } else if ti.signed {
            fmt_one(&z.to_i128().unwrap(), tr, combo, w)
        } else {
            fmt_one(&z.to_u128().unwrap(), tr, combo, w)
        }
    } else {
        fmt_one(&Wide::new(z, ti), tr, combo, w)
    }
}

/// self-check of the >128-bit oracle: the wrapper must print what the primitives print
pub fn wide_selfcheck() -> Result<u64, String> {
    let mut n = 0u64;
    let mut vals: Vec<i128> = vec![0, 1, -1, 7, 10, -10, 100, 1200, -1200, 255, 256, i64::MAX as i128, i64::MIN as i128, i128::MAX, i128::MIN, 10i128.pow(20), -(10i128.pow(30)), 123456789012345678901234567890];
    vals.extend((0..40).map(|k| (1i128 << (3 * k)) - 1));
    for &v in &vals {
        for (bits, signed) in [(128u32, true), (128, false), (64, true), (8, true)] {
            let ti = TypeInfo { bits, signed };
            let z = ti.wrap(&Z::from_i128(v));
            for tr in 0..8 {
                for combo in 0..N_COMBOS {
                    for w in [0usize, 1, 5, 12, 40, 140] {
                        let a = fmt_one(&Wide::new(&z, ti), tr, combo, w);
                        let b = expected(&z, ti, None, tr, combo, w);
                        n += 1;
                        if a != b {
                            return Err(format!("wide-format oracle disagrees with primitive: value {} {} {} width {}: {:?} vs {:?}", z, TRAITS[tr], combo_spec(tr, combo), w, a, b));
                        }
                    }
                }
            }
        }
    }
    Ok(n)
}

fn one<T: StrApi>(config: &str, x: &T, zx: &Z, wide: Option<&Wide>, tr: usize, combo: usize, w: usize, l: &mut Local) {
    let ti = T::ti();
    l.enter(config, TRAITS[tr], || vec![vengine::hex(&x.le()), combo_spec(tr, combo), w.to_string()], (combo as u64) << 32 | w as u64);
    let e: Expect<Z> = Expect::Is(Obs::S(expected(zx, ti, wide, tr, combo, w)));
    let o = match std::panic::catch_unwind(std::panic::AssertUnwindSafe(|| Obs::S(fmt_one(x, tr, combo, w)))) {
        Ok(o) => o,
        Err(_) => Obs::Panic,
    };
    l.check(config, TRAITS[tr], || vec![vengine::hex(&x.le()), combo_spec(tr, combo), w.to_string()], (combo as u64) << 32 | w as u64, &e, &o);
}

/// C12 for one configuration
pub fn fmt_check<T: StrApi>(run: &mut Run) {
    let config = T::type_name();
    for tr in 0..8 {
        if let Some((st, aux)) = run.replay_target(&config, TRAITS[tr]) {
            let x = T::from_le(&vengine::unhex(&st[0]));
            let combo = (aux >> 32) as usize;
            let w = (aux & 0xffff_ffff) as usize;
            let mut l = Local::default();
            one::<T>(&config, &x, &x.z::<Z>(), None, tr, combo, w, &mut l);
            println!("replay {} {} {} {} width {}", config, TRAITS[tr], st[0], combo_spec(tr, combo), w);
            match l.viols.first() {
                Some(v) => println!("  expected: {}\n  observed: {}\nREPRODUCED", v.expected, v.observed),
                None => println!("NOT-REPRODUCED"),
            }
            return;
        }
    }
    if run.in_replay() || !run.wants(&config) {
        return;
    }
    if run.over_deadline() {
        run.cap_hit = true;
        return;
    }
    let tier = run.tier;
    let bits = T::BITS;
    // values: FULL at 8 bits (16 in the thorough tier), boundary sets elsewhere; plus values whose
    // decimal / hex numerals have interior and trailing zeros
    let mut vals: Vec<Vec<u8>> = if bits == 8 || (bits == 16 && tier == Tier::Thorough) {
        sets::full(bits)
    } else {
        let mut v = sets::structured(T::DIGIT_BITS, T::N, Tier::Quick);
        v.truncate(if tier == Tier::Thorough { 1500 } else if bits > 256 { 80 } else { 260 });
        v
    };
    let nb = T::bytes();
    let max = T::ti().max::<Z>();
    let mut p = Z::from_i128(1);
    let ten = Z::from_i128(10);
    let huge = T::N > 100;
    if huge {
        // the widest configurations (8192 bits): a dozen values, every eighth flag combination
        vals.truncate(12);
        for k in [1u32, 19, 20, 1000, 2465] {
            let x = ten.pow(k as u64).mul(&Z::from_i128(105));
            if x <= max {
                vals.push(x.to_le_bytes_wrapped(nb));
                if T::SIGNED {
                    vals.push(x.neg().to_le_bytes_wrapped(nb));
                }
            }
        }
    }
    while p <= max && !huge {
        for m in [1i128, 2, 7, 12, 105] {
            if bits > 256 && tier == Tier::Quick && (m == 2 || m == 12) {
                continue;
            }
            let x = p.mul(&Z::from_i128(m));
            if x <= max {
                vals.push(x.to_le_bytes_wrapped(nb));
                if T::SIGNED {
                    vals.push(x.neg().to_le_bytes_wrapped(nb));
                }
            }
        }
        p = p.mul(&ten);
        if p.bit_len() > 140 && tier == Tier::Quick {
            // keep a few very large powers only
            p = p.mul(&ten).mul(&ten).mul(&ten).mul(&ten).mul(&ten).mul(&ten).mul(&ten);
        }
    }
    let vals = sets::dedup(vals);
    let xs: Vec<T> = vals.iter().map(|b| T::from_le(b)).collect();
    let cfg = config.clone();
    let l = par_chunks(run.threads, xs.len(), |lo, hi, l| {
        for x in &xs[lo..hi] {
            let zx = x.z::<Z>();
            let wide = if bits > 128 { Some(Wide::new(&zx, T::ti())) } else { None };
            // widths around the length of the numerals of this value
            let dec_len = zx.abs().to_str_radix(10).len();
            let hex_len = zx.mod_pow2(bits as u64).to_str_radix(16).len();
            let mut widths: Vec<usize> = if tier == Tier::Thorough && xs.len() <= 70_000 && bits <= 64 {
                (0..=(2 * hex_len.max(dec_len) + 4).min(255)).collect()
            } else {
                vec![0, 1, dec_len, dec_len + 1, dec_len + 2, hex_len + 1, hex_len + 3, 2 * dec_len + 4]
            };
            if huge {
                widths = vec![0, dec_len + 2];
            }
            widths.push(255);
            widths.sort();
            widths.dedup();
            for tr in 0..8 {
                for combo in (0..N_COMBOS).step_by(if huge { 8 } else { 1 }) {
                    for &w in &widths {
                        one::<T>(&cfg, x, &zx, wide.as_ref(), tr, combo, w, l);
                    }
                }
            }
        }
    });
    run.merge(&config, "values x 8 traits x 56 flag combinations x widths", "format", xs.len() as u64 * 8 * N_COMBOS as u64, l);
    if huge && !T::SIGNED {
        // every bit length: 2^b - 1 through Display and LowerExp (numeral-length estimates derived from the bit
        // length go wrong at isolated bit lengths only)
        let all_b: Vec<u64> = (1..=bits as u64).collect();
        let one_z = Z::from_i128(1);
        let l = par_chunks(run.threads, all_b.len(), |lo, hi, l| {
            for &b in &all_b[lo..hi] {
                let zx = Z::pow2(b).sub(&one_z);
                let x = T::from_z(&zx);
                let wide = Wide::new(&zx, T::ti());
                one::<T>(&cfg, &x, &zx, Some(&wide), 0, 0, 0, l);
                if b % 8 == 1 {
                    one::<T>(&cfg, &x, &zx, Some(&wide), 6, 0, 0, l);
                }
            }
        });
        run.merge(&config, "HUGE: 2^b - 1 for every bit length b, Display (LowerExp for every 8th)", "format", all_b.len() as u64, l);
    }
}

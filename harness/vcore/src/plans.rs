//! Plans: which states each configuration is explored from (DESIGN.md section 4).

use refmodel::sets::{self, Tier};
use vengine::{Aux, Plan, Subj};

/// operand pairs for the arithmetic properties
pub fn arith<T: Subj>(tier: Tier) -> Plan<T> {
    let (w, n, bits) = (T::DIGIT_BITS, T::N, T::BITS);
    let st = sets::structured(w, n, tier);
    let (label, a, b) = if bits == 8 {
        ("FULL^2", sets::full(8), sets::full(8))
    } else if bits == 16 {
        if tier == Tier::Thorough && w == 8 {
            // the complete 2^32 pair space, for the u8-digit representation (two digits)
            ("FULL^2", sets::full(16), sets::full(16))
        } else if tier == Tier::Thorough {
            ("FULL x GRID", sets::full(16), st.clone())
        } else {
            // quick: every 16-bit value against a reduced boundary set (FULL^2 is the thorough tier)
            let mut b = sets::grid(w, n, 10);
            b.extend(sets::smalls(2));
            if w == 8 {
                // u8 digits: every single-digit value in the low and in the high position, so that every
                // (two-digit) x (one-digit) interaction is enumerated for every digit value
                for v in 0..=255u8 {
                    b.push(vec![v, 0]);
                    if v % 8 == 5 || v < 4 || v > 251 || (0x7e..=0x81).contains(&v) {
                        b.push(vec![0, v]);
                    }
                }
            }
            ("FULL x (GRID + every single-digit value)", sets::full(16), sets::dedup(b))
        }
    } else {
        ("GRID^2", st.clone(), st.clone())
    };
    let mut c = sets::structured_small(w, n, tier);
    c.truncate(if bits == 8 { 256 } else { 10 });
    let c = if bits == 8 { sets::full(8) } else { c };
    Plan::new(label, &a, &b, &c)
        .with_aux(Aux::Shift, sets::shift_amounts(bits, w, tier))
        .with_aux(Aux::Exp, sets::exponents(bits, tier))
        .with_heavy_limit(if bits == 16 { 24 } else { usize::MAX })
}

/// product-landmark pairs (multiplication and division): N <= 3, types wider than 16 bits.  Landmark
/// digits are digits whose pairwise products have boundary halves (sets::landmark_digits).
pub fn landmark_plan<T: Subj>(tier: Tier) -> Option<Plan<T>> {
    let (w, n, bits) = (T::DIGIT_BITS, T::N, T::BITS);
    if bits <= 16 || n > 3 {
        return None;
    }
    let k = match (n, tier) {
        (1, _) => usize::MAX,
        (2, Tier::Quick) => 24,
        (2, Tier::Thorough) => usize::MAX,
        (_, Tier::Quick) => 9,
        (_, Tier::Thorough) => 14,
    };
    let a = sets::landmark_grid(w, n, k);
    let kb = match (n, tier) {
        (1, _) | (2, Tier::Thorough) => usize::MAX,
        (2, Tier::Quick) => 16,
        (_, Tier::Quick) => 7,
        (_, Tier::Thorough) => 10,
    };
    let b = sets::landmark_grid(w, n, kb);
    let c: Vec<Vec<u8>> = a.iter().take(8).cloned().collect();
    let label = format!("PRODUCT LANDMARKS: {} x {} values over landmark digits", a.len(), b.len());
    Some(Plan::new(&label, &a, &b, &c).with_heavy_limit(16))
}

/// the widest configurations (8192 bits): bound the registers and the exponent list (a multiplication costs
/// about a millisecond there)
pub fn hugeify<T: Subj>(mut p: Plan<T>, max_a: usize, max_b: usize) -> Plan<T> {
    let bits = T::BITS as u64;
    p.a.truncate(max_a);
    p.b.truncate(max_b);
    p.c.truncate(3);
    if let Some(e) = p.aux.get_mut(&Aux::Exp) {
        e.retain(|x| *x <= 3 || *x == 7 || (*x + 1 >= bits && *x <= bits + 1) || *x >= (1 << 32) - 2);
    }
    if let Some(sh) = p.aux.get_mut(&Aux::Shift) {
        // shift amounts: the neighbourhoods of the first / middle / last digit boundaries, of every 16th
        // boundary, of the powers of two, and everything from BITS - 1 on
        let w = T::DIGIT_BITS as u64;
        sh.retain(|x| {
            let x = *x;
            let k = x / w;
            x <= 2 * w + 1
                || x + 2 * w + 1 >= bits
                || (x + w + 1 >= bits / 2 && x <= bits / 2 + w + 1)
                || ((k + 1) % 16 <= 1 && (x % w <= 1 || x % w == w - 1))
                || (x + 1).is_power_of_two()
                || x.is_power_of_two()
                || (x - 1).is_power_of_two()
        });
    }
    p.label = format!("HUGE ({} bits): {}", bits, p.label);
    p
}

/// unary plans: FULL up to 24 bits, structured otherwise
pub fn unary<T: Subj>(tier: Tier) -> Plan<T> {
    let (w, n, bits) = (T::DIGIT_BITS, T::N, T::BITS);
    let (label, a) = if bits <= 16 || (bits == 24 && tier == Tier::Thorough) {
        ("FULL", sets::full(bits))
    } else {
        ("GRID", sets::structured(w, n, tier))
    };
    let b = sets::structured_small(w, n, tier);
    Plan::new(label, &a, &b, &b[..b.len().min(6)].to_vec())
        .with_aux(Aux::Shift, sets::shift_amounts(bits, w, tier))
        .with_aux(Aux::Exp, sets::exponents(bits, tier))
        .with_aux(Aux::BitIdx, (0..bits as u64).collect())
        .with_aux(Aux::SetBit, (0..bits as u64).flat_map(|i| [i, i | (1 << 32)]).collect())
}

use refmodel::BigRef;

fn big(v: i128) -> BigRef {
    BigRef::from_i128(v)
}

/// bit indices: all below 512 bits, digit-boundary neighbourhoods beyond
pub fn bit_indices(bits: u32, w: u32, tier: Tier) -> Vec<u64> {
    let mut v: Vec<u64> = Vec::new();
    if bits <= 512 || (tier == Tier::Thorough && bits <= 1024) {
        v.extend(0..bits as u64);
    } else {
        for k in 0..(bits / w) as u64 {
            for o in [0u64, 1, (w / 2) as u64, w as u64 - 2, w as u64 - 1] {
                v.push(k * w as u64 + o);
            }
        }
    }
    v.sort();
    v.dedup();
    v
}

/// C06 plan: unary plan with bounded bit-index domains and the depth-2 set_bit sequences
pub fn bits_plan<T: Subj>(tier: Tier) -> Plan<T> {
    let (w, bits) = (T::DIGIT_BITS, T::BITS);
    let idx = bit_indices(bits, w, tier);
    let setbit: Vec<u64> = idx.iter().flat_map(|i| [*i, *i | (1 << 32)]).collect();
    // two consecutive set_bit calls: aux = i1 | v1<<16 | i2<<17 | v2<<33 (8- and 16-bit types only)
    let mut seq2: Vec<u64> = Vec::new();
    if bits <= 16 {
        for i1 in 0..bits as u64 {
            for v1 in 0..2u64 {
                for i2 in 0..bits as u64 {
                    for v2 in 0..2u64 {
                        seq2.push(i1 | (v1 << 16) | (i2 << 17) | (v2 << 33));
                    }
                }
            }
        }
    }
    unary::<T>(tier).with_aux(Aux::BitIdx, idx).with_aux(Aux::SetBit, setbit).with_aux(Aux::Custom, seq2)
}

/// values around the exact j-th roots of 2^BITS and 2^(BITS-1) (so that a^e lands just below / at /
/// above the range bounds, and exactly on MIN for signed types)
pub fn root_values(bits: u32, signed: bool) -> Vec<Vec<u8>> {
    let nb = (bits / 8) as usize;
    let mut out = Vec::new();
    for top in [bits as u64, bits as u64 - 1] {
        let bound = BigRef::pow2(top);
        for j in 2..=8u64 {
            let r = bound.nth_root_floor(j);
            for d in -1..=1i128 {
                let v = r.add(&big(d));
                out.push(v.to_le_bytes_wrapped(nb));
                if signed {
                    out.push(v.neg().to_le_bytes_wrapped(nb));
                }
            }
        }
    }
    sets::dedup(out)
}

/// log bases
pub fn log_bases(bits: u32, w: u32) -> Vec<BigRef> {
    let mut v: Vec<BigRef> = [0i128, 1, 2, 3, 4, 5, 7, 8, 10, 16, 100, 255, 256, 1000].iter().map(|x| big(*x)).collect();
    // small bases with one more non-zero digit above them (second digit / top digit)
    for s in [2i128, 3, 7, 10] {
        v.push(BigRef::pow2(w as u64).add(&big(s)));
        if bits > 2 * w {
            v.push(BigRef::pow2((bits - w) as u64).add(&big(s)));
        }
    }
    for k in [w as u64, (bits / 2) as u64, bits as u64 - 1] {
        let p = BigRef::pow2(k);
        v.push(p.sub(&big(1)));
        v.push(p.clone());
        v.push(p.add(&big(1)));
    }
    v
}

/// C08 plan. r0: FULL (<= 16 bits) or boundary sets plus roots of the range and b^k - 1, b^k, b^k + 1;
/// r1 (log base): FULL at 8 bits, the base list otherwise.
pub fn pow_plan<T: Subj>(tier: Tier) -> Plan<T> {
    let (w, n, bits) = (T::DIGIT_BITS, T::N, T::BITS);
    let nb = T::bytes();
    let max = if T::SIGNED { BigRef::pow2(bits as u64 - 1).sub(&big(1)) } else { BigRef::pow2(bits as u64).sub(&big(1)) };
    let bases = log_bases(bits, w);
    let fits = |x: &BigRef| !x.is_neg() && x <= &max;
    let (label, a) = if bits <= 16 {
        ("FULL x bases/exponents", sets::full(bits))
    } else {
        let mut a = sets::structured(w, n, tier);
        a.extend(root_values(bits, T::SIGNED));
        for b in &bases {
            if b < &big(2) || !fits(b) {
                continue;
            }
            let mut p = b.clone();
            let mut k = 0;
            while fits(&p) && k < 9000 {
                for d in -1..=1i128 {
                    let x = p.add(&big(d));
                    if fits(&x) {
                        a.push(x.to_le_bytes_wrapped(nb));
                    }
                }
                p = p.mul(b);
                k += 1;
            }
        }
        ("GRID + roots + powers x bases/exponents", sets::dedup(a))
    };
    let b: Vec<Vec<u8>> = if bits == 8 {
        sets::full(8)
    } else {
        let mut b: Vec<Vec<u8>> = bases.iter().filter(|x| fits(x)).map(|x| x.to_le_bytes_wrapped(nb)).collect();
        if T::SIGNED {
            b.push(big(-1).to_le_bytes_wrapped(nb));
            b.push(big(-2).to_le_bytes_wrapped(nb));
            b.push(BigRef::pow2(bits as u64 - 1).to_le_bytes_wrapped(nb));
        }
        b.extend(sets::structured_small(w, n, Tier::Quick).into_iter().take(40));
        sets::dedup(b)
    };
    Plan::new(label, &a, &b, &[]).with_aux(Aux::Exp, sets::exponents(bits, tier))
}

/// C08 plan for the widest configurations (8192 bits): dense / sparse values, the last powers of 2, 3 and 10
/// that fit (and their neighbours) in the first register, a short base list in the second, small exponents
pub fn pow_plan_huge<T: Subj>() -> Plan<T> {
    let (w, n, bits) = (T::DIGIT_BITS, T::N, T::BITS as u64);
    let nb = T::bytes();
    let max = if T::SIGNED { BigRef::pow2(bits - 1).sub(&big(1)) } else { BigRef::pow2(bits).sub(&big(1)) };
    let mut a: Vec<Vec<u8>> = sets::huge(w, n).into_iter().take(14).collect();
    for (b, k) in [(2i128, bits - 1), (2, bits - 2), (3, (bits - 1) * 1000 / 1585 - 1), (10, (bits - 1) * 1000 / 3322 - 1)] {
        let mut p = big(b).pow(k);
        // step up to the last power that fits
        while p.mul(&big(b)) <= max {
            p = p.mul(&big(b));
        }
        for d in -1..=1i128 {
            let x = p.add(&big(d));
            if !x.is_neg() && x <= max {
                a.push(x.to_le_bytes_wrapped(nb));
                if T::SIGNED {
                    a.push(x.neg().to_le_bytes_wrapped(nb));
                }
            }
        }
    }
    let a = sets::dedup(a);
    let mut bases: Vec<Vec<u8>> = [0i128, 1, 2, 3, 10, 16, 255, 256].iter().map(|x| big(*x).to_le_bytes_wrapped(nb)).collect();
    bases.push(BigRef::pow2(w as u64).add(&big(10)).to_le_bytes_wrapped(nb));
    if T::SIGNED {
        bases.push(big(-2).to_le_bytes_wrapped(nb));
    }
    let label = format!("HUGE ({} bits): {} dense / sparse values and top powers x {} bases, exponents 0..3, 7", bits, a.len(), bases.len());
    Plan::new(&label, &a, &bases, &[]).with_aux(Aux::Exp, vec![0, 1, 2, 3, 7, (1 << 32) - 1])
}

/// C04 / C17 plan: panics cost microseconds, so beyond 8 bits the pairs come from reduced
/// boundary sets; FULL^2 at 8 bits.
pub fn panic_plan<T: Subj>(tier: Tier) -> Plan<T> {
    let (w, n, bits) = (T::DIGIT_BITS, T::N, T::BITS);
    let (label, a) = if bits == 8 {
        ("FULL^2", sets::full(8))
    } else {
        let mut a = sets::structured_small(w, n, tier);
        a.extend(sets::smalls(T::bytes()));
        a.extend(root_values(bits, T::SIGNED).into_iter().take(12));
        ("GRID(small)^2", sets::dedup(a))
    };
    Plan::new(label, &a, &a, &[])
        .with_aux(Aux::Shift, sets::shift_amounts(bits, w, Tier::Quick))
        .with_aux(Aux::Exp, sets::exponents(bits, Tier::Quick))
        .with_typed_shifts()
}

/// C16 plans: the union of the boundary sets of every digit type of the width (what is a digit
/// boundary for u8/u16/u32 digits is present inside a u64 digit), bounded in size.
pub fn cross_plan<T: Subj>(tier: Tier, cap: usize) -> Plan<T> {
    let bits = T::BITS;
    let mut v: Vec<Vec<u8>> = Vec::new();
    if bits <= 8 {
        v = sets::full(8);
    } else {
        let mut per: Vec<Vec<Vec<u8>>> = Vec::new();
        for w in [64u32, 32, 16, 8] {
            if bits % w == 0 {
                let n = (bits / w) as usize;
                if n <= 4 || w == 64 || tier == Tier::Thorough {
                    per.push(sets::structured(w, n, Tier::Quick));
                } else {
                    per.push(sets::structured_small(w, n, Tier::Quick));
                }
            }
        }
        // interleave so that truncation keeps every digit type's simplest values
        let maxlen = per.iter().map(|p| p.len()).max().unwrap_or(0);
        for i in 0..maxlen {
            for p in &per {
                if i < p.len() {
                    v.push(p[i].clone());
                }
            }
        }
        v.extend(root_values(bits, T::SIGNED));
    }
    let mut v = sets::dedup(v);
    v.truncate(cap);
    let c: Vec<Vec<u8>> = v.iter().take(6).cloned().collect();
    Plan::new("union of per-digit-type boundary sets", &v, &v, &c)
        .with_aux(Aux::Shift, sets::shift_amounts(bits, T::DIGIT_BITS, Tier::Quick))
        .with_aux(Aux::Exp, sets::exponents(bits, Tier::Quick))
        .with_heavy_limit(16)
}

/// C17 plan: the C04 plan plus bnum-typed shift amounts below BITS, assign-sequence codes and the
/// Sum / Product sequence codes (every sequence of length <= 4 over an 8-value alphabet)
pub fn ops_plan<T: Subj>(tier: Tier) -> Plan<T> {
    let bits = T::BITS as u64;
    let mut amounts: Vec<u64> = vec![0, 1, 2, 7, 8, 9, bits / 2, bits - 2, bits - 1];
    if T::BITS <= 64 {
        amounts = (0..bits).collect();
    }
    amounts.retain(|a| *a < bits);
    amounts.sort();
    amounts.dedup();
    let seqcodes: Vec<u64> = (0..14u64).flat_map(|a| (0..14u64).map(move |b| a * 16 + b)).collect();
    let mut folds: Vec<u64> = Vec::new();
    for len in 0..=4u64 {
        for code in 0..(8u64.pow(len as u32)) {
            folds.push((len << 12) | code);
        }
    }
    // the 196 assign sequences run against the first 8 values of the second register only (heavy)
    let mut p = panic_plan::<T>(tier).with_aux(Aux::BitIdx, amounts).with_aux(Aux::Custom, seqcodes).with_aux(Aux::K(20), folds).with_heavy_limit(8);
    if T::N > 4 {
        // many-digit shapes: an evenly spaced subset (about 72 values) of the sparse boundary set on both sides
        let step = (p.a.len() / 72).max(1);
        p.a = p.a.iter().step_by(step).cloned().collect();
        p.b = p.a.clone();
    }
    // the third register of the assign sequences: a handful of values
    p.c = p.a.iter().take(6).cloned().collect();
    if T::BITS == 8 {
        // FULL^2 x 6 for the sequences would be 196 sequences x 65536 x 6: bound the third register
        p.c = p.a.iter().step_by(51).cloned().collect();
        if tier == Tier::Quick {
            // every value in the first register against every fifth value (and the boundaries) in the second:
            // both sides of a differential transition may panic (microseconds each)
            let mut b: Vec<T> = p.b.iter().step_by(5).cloned().collect();
            b.extend([p.b[1], p.b[127], p.b[128], p.b[129], p.b[254]]);
            p.b = b;
            p.label = "FULL x (every 5th value + boundaries)".to_string();
        }
    }
    p
}

/// closure pass of the arithmetic checks: re-seed the first register with the values the model
/// derives from the initial GRID states, keep the GRID in the second register
pub fn closure_plan<T: Subj, Z: refmodel::ZNum>(ops: &[vengine::Op<T, Z>], tier: Tier) -> Option<Plan<T>> {
    if T::BITS <= 16 || T::N > 4 {
        return None;
    }
    let base = arith::<T>(Tier::Quick);
    // quick: a light pass (600 derived values x 100 initial ones); thorough: 20 000 x the whole GRID
    let (side, cap, bcap) = if tier == Tier::Thorough { (160, 20_000, usize::MAX) } else { (60, 600, 100) };
    let (v1, found) = vengine::closure_values(ops, &base, side, cap);
    let b: Vec<Vec<u8>> = base.a.iter().take(bcap).map(|x| x.le()).collect();
    let c: Vec<Vec<u8>> = base.c.iter().map(|x| x.le()).collect();
    let label = format!("CLOSURE: {} model-derived values (of {} found) x {} initial values", v1.len(), found, b.len());
    Some(
        Plan::new(&label, &v1, &b, &c)
            .with_aux(Aux::Shift, sets::shift_amounts(T::BITS, T::DIGIT_BITS, Tier::Quick))
            .with_aux(Aux::Exp, sets::exponents(T::BITS, Tier::Quick)),
    )
}

/// C08, logarithms at large widths: x in {b^k - 1, b^k, b^k + 1} for every k that fits (every
/// `stride`-th k plus the last 40), for a small base list
pub fn wide_log_plan<T: Subj>(stride: usize) -> Plan<T> {
    let bits = T::BITS as u64;
    let nb = T::bytes();
    let max = if T::SIGNED { BigRef::pow2(bits - 1).sub(&big(1)) } else { BigRef::pow2(bits).sub(&big(1)) };
    let bases: Vec<BigRef> = vec![big(10), big(2), big(3), big(7), big(255), BigRef::pow2(64).add(&big(1))];
    let mut a: Vec<Vec<u8>> = Vec::new();
    for b in &bases {
        let mut powers: Vec<BigRef> = Vec::new();
        let mut p = b.clone();
        while p <= max {
            powers.push(p.clone());
            p = p.mul(b);
        }
        let n = powers.len();
        for (k, p) in powers.iter().enumerate() {
            if k % stride != 0 && k + 40 < n {
                continue;
            }
            for d in -1..=1i128 {
                let x = p.add(&big(d));
                if !x.is_neg() && x <= max {
                    a.push(x.to_le_bytes_wrapped(nb));
                }
            }
        }
    }
    a.push(max.to_le_bytes_wrapped(nb));
    let a = sets::dedup(a);
    let b: Vec<Vec<u8>> = bases.iter().map(|x| x.to_le_bytes_wrapped(nb)).collect();
    Plan::new("WIDE LOGS: b^k - 1, b^k, b^k + 1 up to the top of the range", &a, &b, &[]).with_aux(Aux::Exp, vec![0, 1, 2, 3])
}

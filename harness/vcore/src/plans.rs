//! Plans: which states each configuration is explored from (DESIGN.md section 4).

use refmodel::sets::{self, Tier};
use vengine::{Aux, Plan, Subj};

/// operand pairs for the arithmetic properties
pub fn arith<T: Subj>(tier: Tier) -> Plan<T> {
    let (w, n, bits) = (T::DIGIT_BITS, T::N, T::BITS);
    let st = sets::structured(w, n, tier);
    let (label, a, b) = if bits == 8 {
        ("FULL^2", sets::full(8), sets::full(8))
    } else if bits == 16 {
        if tier == Tier::Thorough {
            ("FULL^2", sets::full(16), sets::full(16))
        } else {
            // quick: every 16-bit value against a reduced boundary set (FULL^2 is the thorough tier)
            let mut b = sets::grid(w, n, 10);
            b.extend(sets::smalls(2));
            ("FULL x GRID", sets::full(16), sets::dedup(b))
        }
    } else {
        ("GRID^2", st.clone(), st.clone())
    };
    let mut c = sets::structured_small(w, n, tier);
    c.truncate(if bits == 8 { 256 } else { 10 });
    let c = if bits == 8 { sets::full(8) } else { c };
    Plan::new(label, &a, &b, &c)
        .with_aux(Aux::Shift, sets::shift_amounts(bits, w, tier))
        .with_aux(Aux::Exp, sets::exponents(bits, tier))
        .with_heavy_limit(if bits == 16 { 24 } else { usize::MAX })
}

/// unary plans: FULL up to 24 bits, structured otherwise
pub fn unary<T: Subj>(tier: Tier) -> Plan<T> {
    let (w, n, bits) = (T::DIGIT_BITS, T::N, T::BITS);
    let (label, a) = if bits <= 16 || (bits == 24 && tier == Tier::Thorough) {
        ("FULL", sets::full(bits))
    } else {
        ("GRID", sets::structured(w, n, tier))
    };
    let b = sets::structured_small(w, n, tier);
    Plan::new(label, &a, &b, &b[..b.len().min(6)].to_vec())
        .with_aux(Aux::Shift, sets::shift_amounts(bits, w, tier))
        .with_aux(Aux::Exp, sets::exponents(bits, tier))
        .with_aux(Aux::BitIdx, (0..bits as u64).collect())
        .with_aux(Aux::SetBit, (0..bits as u64).flat_map(|i| [i, i | (1 << 32)]).collect())
}

//! C01: add / sub / neg / abs in every overflow mode.
use refmodel::spec;
use refmodel::{Obs, ZNum};
use vengine::{op, oph, Aux, Op};
use vengine::{ov, v, vf};

macro_rules! tables {
    ($fam:ident, $BUint:ident, $BInt:ident, $Digit:ty) => {
        pub mod $fam {
            use super::*;
            use bnum::{$BInt, $BUint};
            pub fn u<const N: usize, Z: ZNum>() -> Vec<Op<$BUint<N>, Z>> {
                vec![
                    op!("overflowing_add", 2, Aux::None, spec::overflowing_add, |r, _x| vf(r[0].overflowing_add(r[1]))),
                    op!("checked_add", 2, Aux::None, spec::checked_add, |r, _x| ov(r[0].checked_add(r[1]))),
                    op!("wrapping_add", 2, Aux::None, spec::wrapping_add, |r, _x| v(r[0].wrapping_add(r[1]))),
                    op!("saturating_add", 2, Aux::None, spec::saturating_add, |r, _x| v(r[0].saturating_add(r[1]))),
                    oph!("strict_add", 2, Aux::None, spec::strict_add, |r, _x| v(r[0].strict_add(r[1]))),
                    op!("unchecked_add", 2, Aux::None, spec::unchecked_add, |r, _x| if r[0].checked_add(r[1]).is_some() { v(unsafe { r[0].unchecked_add(r[1]) }) } else { Obs::OV(None) }),
                    op!("overflowing_sub", 2, Aux::None, spec::overflowing_sub, |r, _x| vf(r[0].overflowing_sub(r[1]))),
                    op!("checked_sub", 2, Aux::None, spec::checked_sub, |r, _x| ov(r[0].checked_sub(r[1]))),
                    op!("wrapping_sub", 2, Aux::None, spec::wrapping_sub, |r, _x| v(r[0].wrapping_sub(r[1]))),
                    op!("saturating_sub", 2, Aux::None, spec::saturating_sub, |r, _x| v(r[0].saturating_sub(r[1]))),
                    oph!("strict_sub", 2, Aux::None, spec::strict_sub, |r, _x| v(r[0].strict_sub(r[1]))),
                    op!("unchecked_sub", 2, Aux::None, spec::unchecked_sub, |r, _x| if r[0].checked_sub(r[1]).is_some() { v(unsafe { r[0].unchecked_sub(r[1]) }) } else { Obs::OV(None) }),
                    op!("overflowing_add_signed", 2, Aux::None, spec::overflowing_add_signed, |r, _x| vf(r[0].overflowing_add_signed(r[1].cast_signed()))),
                    op!("checked_add_signed", 2, Aux::None, spec::checked_add_signed, |r, _x| ov(r[0].checked_add_signed(r[1].cast_signed()))),
                    op!("wrapping_add_signed", 2, Aux::None, spec::wrapping_add_signed, |r, _x| v(r[0].wrapping_add_signed(r[1].cast_signed()))),
                    op!("saturating_add_signed", 2, Aux::None, spec::saturating_add_signed, |r, _x| v(r[0].saturating_add_signed(r[1].cast_signed()))),
                    oph!("strict_add_signed", 2, Aux::None, spec::strict_add_signed, |r, _x| v(r[0].strict_add_signed(r[1].cast_signed()))),
                    op!("overflowing_neg", 1, Aux::None, spec::overflowing_neg, |r, _x| vf(r[0].overflowing_neg())),
                    op!("checked_neg", 1, Aux::None, spec::checked_neg, |r, _x| ov(r[0].checked_neg())),
                    op!("wrapping_neg", 1, Aux::None, spec::wrapping_neg, |r, _x| v(r[0].wrapping_neg())),
                    oph!("strict_neg", 1, Aux::None, spec::strict_neg, |r, _x| v(r[0].strict_neg())),
                    op!("carrying_add", 2, Aux::Bool, spec::carrying_add, |r, x| vf(r[0].carrying_add(r[1], x != 0))),
                    op!("borrowing_sub", 2, Aux::Bool, spec::borrowing_sub, |r, x| vf(r[0].borrowing_sub(r[1], x != 0))),
                    op!("abs_diff", 2, Aux::None, spec::abs_diff, |r, _x| v(r[0].abs_diff(r[1]))),
                    op!("midpoint", 2, Aux::None, spec::midpoint, |r, _x| v(r[0].midpoint(r[1]))),
                ]
            }
            pub fn i<const N: usize, Z: ZNum>() -> Vec<Op<$BInt<N>, Z>> {
                vec![
                    op!("overflowing_add", 2, Aux::None, spec::overflowing_add, |r, _x| vf(r[0].overflowing_add(r[1]))),
                    op!("checked_add", 2, Aux::None, spec::checked_add, |r, _x| ov(r[0].checked_add(r[1]))),
                    op!("wrapping_add", 2, Aux::None, spec::wrapping_add, |r, _x| v(r[0].wrapping_add(r[1]))),
                    op!("saturating_add", 2, Aux::None, spec::saturating_add, |r, _x| v(r[0].saturating_add(r[1]))),
                    oph!("strict_add", 2, Aux::None, spec::strict_add, |r, _x| v(r[0].strict_add(r[1]))),
                    op!("unchecked_add", 2, Aux::None, spec::unchecked_add, |r, _x| if r[0].checked_add(r[1]).is_some() { v(unsafe { r[0].unchecked_add(r[1]) }) } else { Obs::OV(None) }),
                    op!("overflowing_sub", 2, Aux::None, spec::overflowing_sub, |r, _x| vf(r[0].overflowing_sub(r[1]))),
                    op!("checked_sub", 2, Aux::None, spec::checked_sub, |r, _x| ov(r[0].checked_sub(r[1]))),
                    op!("wrapping_sub", 2, Aux::None, spec::wrapping_sub, |r, _x| v(r[0].wrapping_sub(r[1]))),
                    op!("saturating_sub", 2, Aux::None, spec::saturating_sub, |r, _x| v(r[0].saturating_sub(r[1]))),
                    oph!("strict_sub", 2, Aux::None, spec::strict_sub, |r, _x| v(r[0].strict_sub(r[1]))),
                    op!("unchecked_sub", 2, Aux::None, spec::unchecked_sub, |r, _x| if r[0].checked_sub(r[1]).is_some() { v(unsafe { r[0].unchecked_sub(r[1]) }) } else { Obs::OV(None) }),
                    op!("overflowing_add_unsigned", 2, Aux::None, spec::overflowing_add_unsigned, |r, _x| vf(r[0].overflowing_add_unsigned(r[1].cast_unsigned()))),
                    op!("checked_add_unsigned", 2, Aux::None, spec::checked_add_unsigned, |r, _x| ov(r[0].checked_add_unsigned(r[1].cast_unsigned()))),
                    op!("wrapping_add_unsigned", 2, Aux::None, spec::wrapping_add_unsigned, |r, _x| v(r[0].wrapping_add_unsigned(r[1].cast_unsigned()))),
                    op!("saturating_add_unsigned", 2, Aux::None, spec::saturating_add_unsigned, |r, _x| v(r[0].saturating_add_unsigned(r[1].cast_unsigned()))),
                    oph!("strict_add_unsigned", 2, Aux::None, spec::strict_add_unsigned, |r, _x| v(r[0].strict_add_unsigned(r[1].cast_unsigned()))),
                    op!("overflowing_sub_unsigned", 2, Aux::None, spec::overflowing_sub_unsigned, |r, _x| vf(r[0].overflowing_sub_unsigned(r[1].cast_unsigned()))),
                    op!("checked_sub_unsigned", 2, Aux::None, spec::checked_sub_unsigned, |r, _x| ov(r[0].checked_sub_unsigned(r[1].cast_unsigned()))),
                    op!("wrapping_sub_unsigned", 2, Aux::None, spec::wrapping_sub_unsigned, |r, _x| v(r[0].wrapping_sub_unsigned(r[1].cast_unsigned()))),
                    op!("saturating_sub_unsigned", 2, Aux::None, spec::saturating_sub_unsigned, |r, _x| v(r[0].saturating_sub_unsigned(r[1].cast_unsigned()))),
                    oph!("strict_sub_unsigned", 2, Aux::None, spec::strict_sub_unsigned, |r, _x| v(r[0].strict_sub_unsigned(r[1].cast_unsigned()))),
                    op!("overflowing_neg", 1, Aux::None, spec::overflowing_neg, |r, _x| vf(r[0].overflowing_neg())),
                    op!("checked_neg", 1, Aux::None, spec::checked_neg, |r, _x| ov(r[0].checked_neg())),
                    op!("wrapping_neg", 1, Aux::None, spec::wrapping_neg, |r, _x| v(r[0].wrapping_neg())),
                    op!("saturating_neg", 1, Aux::None, spec::saturating_neg, |r, _x| v(r[0].saturating_neg())),
                    oph!("strict_neg", 1, Aux::None, spec::strict_neg, |r, _x| v(r[0].strict_neg())),
                    op!("overflowing_abs", 1, Aux::None, spec::overflowing_abs, |r, _x| vf(r[0].overflowing_abs())),
                    op!("checked_abs", 1, Aux::None, spec::checked_abs, |r, _x| ov(r[0].checked_abs())),
                    op!("wrapping_abs", 1, Aux::None, spec::wrapping_abs, |r, _x| v(r[0].wrapping_abs())),
                    op!("saturating_abs", 1, Aux::None, spec::saturating_abs, |r, _x| v(r[0].saturating_abs())),
                    oph!("strict_abs", 1, Aux::None, spec::strict_abs, |r, _x| v(r[0].strict_abs())),
                    op!("unsigned_abs", 1, Aux::None, spec::unsigned_abs, |r, _x| v(r[0].unsigned_abs())),
                    op!("carrying_add", 2, Aux::Bool, spec::carrying_add, |r, x| vf(r[0].carrying_add(r[1], x != 0))),
                    op!("borrowing_sub", 2, Aux::Bool, spec::borrowing_sub, |r, x| vf(r[0].borrowing_sub(r[1], x != 0))),
                    op!("abs_diff", 2, Aux::None, spec::abs_diff, |r, _x| v(r[0].abs_diff(r[1]))),
                    op!("midpoint", 2, Aux::None, spec::midpoint, |r, _x| v(r[0].midpoint(r[1]))),
                ]
            }
        }
    };
}
crate::for_families!(tables);

//! C03: division and remainder.  Zero-divisor panics belong to C04: here such states are skipped
//! for the non-checked forms (opn!), while the checked forms must return None.
use refmodel::spec;
use refmodel::ZNum;
use vengine::{op, opn, Aux, Op};
use vengine::{ov, v, vf};

macro_rules! common {
    () => {
        vec![
            opn!("div", 2, Aux::None, spec::div, |r, _x| v(r[0] / r[1])),
            opn!("rem", 2, Aux::None, spec::rem, |r, _x| v(r[0] % r[1])),
            op!("checked_div", 2, Aux::None, spec::checked_div, |r, _x| ov(r[0].checked_div(r[1]))),
            op!("checked_rem", 2, Aux::None, spec::checked_rem, |r, _x| ov(r[0].checked_rem(r[1]))),
            op!("checked_div_euclid", 2, Aux::None, spec::checked_div_euclid, |r, _x| ov(r[0].checked_div_euclid(r[1]))),
            op!("checked_rem_euclid", 2, Aux::None, spec::checked_rem_euclid, |r, _x| ov(r[0].checked_rem_euclid(r[1]))),
            opn!("wrapping_div", 2, Aux::None, spec::wrapping_div, |r, _x| v(r[0].wrapping_div(r[1]))),
            opn!("wrapping_rem", 2, Aux::None, spec::wrapping_rem, |r, _x| v(r[0].wrapping_rem(r[1]))),
            opn!("wrapping_div_euclid", 2, Aux::None, spec::wrapping_div_euclid, |r, _x| v(r[0].wrapping_div_euclid(r[1]))),
            opn!("wrapping_rem_euclid", 2, Aux::None, spec::wrapping_rem_euclid, |r, _x| v(r[0].wrapping_rem_euclid(r[1]))),
            opn!("overflowing_div", 2, Aux::None, spec::overflowing_div, |r, _x| vf(r[0].overflowing_div(r[1]))),
            opn!("overflowing_rem", 2, Aux::None, spec::overflowing_rem, |r, _x| vf(r[0].overflowing_rem(r[1]))),
            opn!("overflowing_div_euclid", 2, Aux::None, spec::overflowing_div_euclid, |r, _x| vf(r[0].overflowing_div_euclid(r[1]))),
            opn!("overflowing_rem_euclid", 2, Aux::None, spec::overflowing_rem_euclid, |r, _x| vf(r[0].overflowing_rem_euclid(r[1]))),
            opn!("saturating_div", 2, Aux::None, spec::saturating_div, |r, _x| v(r[0].saturating_div(r[1]))),
            opn!("strict_div", 2, Aux::None, spec::strict_div, |r, _x| v(r[0].strict_div(r[1]))),
            opn!("strict_rem", 2, Aux::None, spec::strict_rem, |r, _x| v(r[0].strict_rem(r[1]))),
            opn!("strict_div_euclid", 2, Aux::None, spec::strict_div_euclid, |r, _x| v(r[0].strict_div_euclid(r[1]))),
            opn!("strict_rem_euclid", 2, Aux::None, spec::strict_rem_euclid, |r, _x| v(r[0].strict_rem_euclid(r[1]))),
            opn!("div_euclid", 2, Aux::None, spec::div_euclid, |r, _x| v(r[0].div_euclid(r[1]))),
            opn!("rem_euclid", 2, Aux::None, spec::rem_euclid, |r, _x| v(r[0].rem_euclid(r[1]))),
            opn!("div_floor", 2, Aux::None, spec::div_floor, |r, _x| v(r[0].div_floor(r[1]))),
            opn!("div_ceil", 2, Aux::None, spec::div_ceil, |r, _x| v(r[0].div_ceil(r[1]))),
            opn!("next_multiple_of", 2, Aux::None, spec::next_multiple_of_representable, |r, _x| v(r[0].next_multiple_of(r[1]))),
            op!("checked_next_multiple_of", 2, Aux::None, spec::checked_next_multiple_of, |r, _x| ov(r[0].checked_next_multiple_of(r[1]))),
            opn!("const_div", 2, Aux::None, spec::div, |r, _x| v(r[0].div(r[1]))),
            opn!("const_rem", 2, Aux::None, spec::rem, |r, _x| v(r[0].rem(r[1]))),
        ]
    };
}

macro_rules! tables {
    ($fam:ident, $BUint:ident, $BInt:ident, $Digit:ty) => {
        pub mod $fam {
            use super::*;
            use bnum::{$BInt, $BUint};
            pub fn u<const N: usize, Z: ZNum>() -> Vec<Op<$BUint<N>, Z>> {
                common!()
            }
            pub fn i<const N: usize, Z: ZNum>() -> Vec<Op<$BInt<N>, Z>> {
                common!()
            }
        }
    };
}
crate::for_families!(tables);

//! C17: std trait implementations (operators in all value/reference forms, assign forms, typed and
//! bnum-typed shift amounts, Sum / Product, Default, PartialOrd / Ord / PartialEq, FromStr, digit
//! operands) against the inherent methods on identical operands: same value, same panic outcome.
use refmodel::spec;
use refmodel::sets::Amt;
use refmodel::{Obs, ZNum};
use vengine::{bo, oord, ord, same, v};
use vengine::{op, oph, Aux, Op, ShiftRhs, Subj};

/// an operator against the checked / wrapping family (independent of the const twins the trait impls
/// delegate to): debug builds panic exactly where `checked_*` is None, release builds wrap; division
/// and remainder panic exactly where `checked_*` is None in both modes
macro_rules! anchored {
    (modal, $c:expr, $w:expr) => {
        if cfg!(debug_assertions) {
            match $c {
                Some(x) => v(x),
                None => Obs::Panic,
            }
        } else {
            v($w)
        }
    };
    (strict, $c:expr) => {
        match $c {
            Some(x) => v(x),
            None => Obs::Panic,
        }
    };
}

/// six forms of a binary operator against the inherent method
macro_rules! binop {
    ($T:ty, $op:tt, $opa:tt, $inh:ident, $n0:literal, $n1:literal, $n2:literal, $n3:literal, $n4:literal, $n5:literal) => {{
        let t: Vec<Op<$T, Z>> = vec![
            op!($n0, 2, Aux::None, spec::always_true, |r, _x| same(&|| v(r[0] $op r[1]), &|| v(r[0].$inh(r[1])))),
            op!($n1, 2, Aux::None, spec::always_true, |r, _x| same(&|| v(&r[0] $op r[1]), &|| v(r[0].$inh(r[1])))),
            op!($n2, 2, Aux::None, spec::always_true, |r, _x| same(&|| v(r[0] $op &r[1]), &|| v(r[0].$inh(r[1])))),
            op!($n3, 2, Aux::None, spec::always_true, |r, _x| same(&|| v(&r[0] $op &r[1]), &|| v(r[0].$inh(r[1])))),
            op!($n4, 2, Aux::None, spec::always_true, |r, _x| same(&|| { let mut a = r[0]; a $opa r[1]; v(a) }, &|| v(r[0].$inh(r[1])))),
            op!($n5, 2, Aux::None, spec::always_true, |r, _x| same(&|| { let mut a = r[0]; a $opa &r[1]; v(a) }, &|| v(r[0].$inh(r[1])))),
        ];
        t
    }};
}

/// the reference for a shift by a primitive amount: debug builds panic unless the amount converts to
/// u32 and then use the inherent shl/shr; release builds use the inherent shl/shr of (rhs as u32)
macro_rules! tsref {
    ($a:expr, $s:expr, $inh:ident) => {
        match u32::try_from($s) {
            Ok(k) => v($a.$inh(k)),
            Err(_) => {
                if cfg!(debug_assertions) {
                    Obs::Panic
                } else {
                    v($a.$inh($s as u32))
                }
            }
        }
    };
}
macro_rules! typed_shift {
    ($T:ty, $rhs:ty, $op:tt, $opa:tt, $inh:ident, $n0:literal, $n1:literal, $n2:literal, $n3:literal, $n4:literal, $n5:literal) => {{
        let k = Aux::K(<$rhs as ShiftRhs>::K);
        let t: Vec<Op<$T, Z>> = vec![
            op!($n0, 1, k, spec::always_true, |r, x| { let s = <$rhs as ShiftRhs>::from_amt(spec::shift_candidate(<$T as Subj>::BITS, x)); same(&|| v(r[0] $op s), &|| tsref!(r[0], s, $inh)) }),
            op!($n1, 1, k, spec::always_true, |r, x| { let s = <$rhs as ShiftRhs>::from_amt(spec::shift_candidate(<$T as Subj>::BITS, x)); same(&|| v(&r[0] $op s), &|| tsref!(r[0], s, $inh)) }),
            op!($n2, 1, k, spec::always_true, |r, x| { let s = <$rhs as ShiftRhs>::from_amt(spec::shift_candidate(<$T as Subj>::BITS, x)); same(&|| v(r[0] $op &s), &|| tsref!(r[0], s, $inh)) }),
            op!($n3, 1, k, spec::always_true, |r, x| { let s = <$rhs as ShiftRhs>::from_amt(spec::shift_candidate(<$T as Subj>::BITS, x)); same(&|| v(&r[0] $op &s), &|| tsref!(r[0], s, $inh)) }),
            op!($n4, 1, k, spec::always_true, |r, x| { let s = <$rhs as ShiftRhs>::from_amt(spec::shift_candidate(<$T as Subj>::BITS, x)); same(&|| { let mut a = r[0]; a $opa s; v(a) }, &|| tsref!(r[0], s, $inh)) }),
            op!($n5, 1, k, spec::always_true, |r, x| { let s = <$rhs as ShiftRhs>::from_amt(spec::shift_candidate(<$T as Subj>::BITS, x)); same(&|| { let mut a = r[0]; a $opa &s; v(a) }, &|| tsref!(r[0], s, $inh)) }),
        ];
        t
    }};
}

/// shifts by a bnum-typed amount below BITS (aux = the amount)
macro_rules! bnum_shift {
    ($T:ty, $R:ty, $op:tt, $opa:tt, $inh:ident, $n0:literal, $n1:literal, $n2:literal, $n3:literal, $n4:literal, $n5:literal) => {{
        let t: Vec<Op<$T, Z>> = vec![
            op!($n0, 1, Aux::BitIdx, spec::always_true, |r, x| same(&|| v(r[0] $op <$R>::try_from(x as u32).unwrap()), &|| v(r[0].$inh(x as u32)))),
            op!($n1, 1, Aux::BitIdx, spec::always_true, |r, x| same(&|| v(&r[0] $op <$R>::try_from(x as u32).unwrap()), &|| v(r[0].$inh(x as u32)))),
            op!($n2, 1, Aux::BitIdx, spec::always_true, |r, x| same(&|| v(r[0] $op &<$R>::try_from(x as u32).unwrap()), &|| v(r[0].$inh(x as u32)))),
            op!($n3, 1, Aux::BitIdx, spec::always_true, |r, x| same(&|| v(&r[0] $op &<$R>::try_from(x as u32).unwrap()), &|| v(r[0].$inh(x as u32)))),
            op!($n4, 1, Aux::BitIdx, spec::always_true, |r, x| same(&|| { let mut a = r[0]; a $opa <$R>::try_from(x as u32).unwrap(); v(a) }, &|| v(r[0].$inh(x as u32)))),
            op!($n5, 1, Aux::BitIdx, spec::always_true, |r, x| same(&|| { let mut a = r[0]; a $opa &<$R>::try_from(x as u32).unwrap(); v(a) }, &|| v(r[0].$inh(x as u32)))),
        ];
        t
    }};
}

/// two consecutive assign operations against the by-value fold; aux = 16 * first + second
macro_rules! assign_seq {
    ($T:ty) => {{
        let t: Vec<Op<$T, Z>> = vec![oph!("assign_sequence_depth2", 3, Aux::Custom, spec::always_true, |r, x| {
            let apply_assign = |a: &mut $T, k: u64, b: $T, s: u32| match k {
                0 => *a += b,
                1 => *a -= b,
                2 => *a *= b,
                3 => *a /= b,
                4 => *a %= b,
                5 => *a &= b,
                6 => *a |= b,
                7 => *a ^= b,
                8 => *a <<= s,
                9 => *a >>= s,
                10 => *a += &b,
                11 => *a ^= &b,
                12 => *a <<= s as u8,
                _ => *a >>= s as i64,
            };
            let apply_value = |a: $T, k: u64, b: $T, s: u32| -> $T {
                match k {
                    0 | 10 => a.add(b),
                    1 => a.sub(b),
                    2 => a.mul(b),
                    3 => a.div(b),
                    4 => a.rem(b),
                    5 => a.bitand(b),
                    6 => a.bitor(b),
                    7 | 11 => a.bitxor(b),
                    8 | 12 => a.shl(s),
                    _ => a.shr(s),
                }
            };
            let (k1, k2) = (x / 16, x % 16);
            let s1 = (r[1].trailing_zeros() % <$T as Subj>::BITS.min(64)).min(<$T as Subj>::BITS - 1);
            let s2 = (r[2].trailing_zeros() % <$T as Subj>::BITS.min(64)).min(<$T as Subj>::BITS - 1);
            same(
                &|| {
                    let mut a = r[0];
                    apply_assign(&mut a, k1, r[1], s1);
                    apply_assign(&mut a, k2, r[2], s2);
                    v(a)
                },
                &|| v(apply_value(apply_value(r[0], k1, r[1], s1), k2, r[2], s2)),
            )
        })];
        t
    }};
}

/// Sum / Product over every sequence of length <= 4 of an 8-value alphabet; aux encodes the
/// sequence: length in bits 12.., elements 3 bits each
macro_rules! seq {
    ($T:ty, $alpha:expr, $x:expr) => {{
        let alpha: [$T; 8] = $alpha;
        let len = ($x >> 12) as usize;
        (0..len).map(|i| alpha[(($x >> (3 * i)) & 7) as usize]).collect::<Vec<$T>>()
    }};
}
macro_rules! folds {
    ($T:ty, $alpha:expr) => {{
        let t: Vec<Op<$T, Z>> = vec![
            op!("sum_owned", 1, Aux::K(20), spec::always_true, |_r, x| same(&|| v(seq!($T, $alpha, x).into_iter().sum::<$T>()), &|| v(seq!($T, $alpha, x).into_iter().fold(<$T>::ZERO, |a, b| a + b)))),
            op!("sum_borrowed", 1, Aux::K(20), spec::always_true, |_r, x| same(&|| v(seq!($T, $alpha, x).iter().sum::<$T>()), &|| v(seq!($T, $alpha, x).into_iter().fold(<$T>::ZERO, |a, b| a + b)))),
            op!("product_owned", 1, Aux::K(20), spec::always_true, |_r, x| same(&|| v(seq!($T, $alpha, x).into_iter().product::<$T>()), &|| v(seq!($T, $alpha, x).into_iter().fold(<$T>::ONE, |a, b| a * b)))),
            op!("product_borrowed", 1, Aux::K(20), spec::always_true, |_r, x| same(&|| v(seq!($T, $alpha, x).iter().product::<$T>()), &|| v(seq!($T, $alpha, x).into_iter().fold(<$T>::ONE, |a, b| a * b)))),
        ];
        t
    }};
}

macro_rules! common {
    ($T:ty, $BU:ty, $BI:ty) => {{
        let mut t: Vec<Op<$T, Z>> = Vec::new();
        t.extend(binop!($T, +, +=, add, "add a+b", "add &a+b", "add a+&b", "add &a+&b", "add a+=b", "add a+=&b"));
        t.extend(binop!($T, -, -=, sub, "sub a-b", "sub &a-b", "sub a-&b", "sub &a-&b", "sub a-=b", "sub a-=&b"));
        t.extend(binop!($T, *, *=, mul, "mul a*b", "mul &a*b", "mul a*&b", "mul &a*&b", "mul a*=b", "mul a*=&b"));
        t.extend(binop!($T, /, /=, div, "div a/b", "div &a/b", "div a/&b", "div &a/&b", "div a/=b", "div a/=&b"));
        t.extend(binop!($T, %, %=, rem, "rem a%b", "rem &a%b", "rem a%&b", "rem &a%&b", "rem a%=b", "rem a%=&b"));
        t.extend(binop!($T, &, &=, bitand, "and a&b", "and &a&b", "and a&&b", "and &a&&b", "and a&=b", "and a&=&b"));
        t.extend(binop!($T, |, |=, bitor, "or a|b", "or &a|b", "or a|&b", "or &a|&b", "or a|=b", "or a|=&b"));
        t.extend(binop!($T, ^, ^=, bitxor, "xor a^b", "xor &a^b", "xor a^&b", "xor &a^&b", "xor a^=b", "xor a^=&b"));
        let anchored: Vec<Op<$T, Z>> = vec![
            op!("add a+b vs checked/wrapping_add", 2, Aux::None, spec::always_true, |r, _x| same(&|| v(r[0] + r[1]), &|| anchored!(modal, r[0].checked_add(r[1]), r[0].wrapping_add(r[1])))),
            op!("sub a-b vs checked/wrapping_sub", 2, Aux::None, spec::always_true, |r, _x| same(&|| v(r[0] - r[1]), &|| anchored!(modal, r[0].checked_sub(r[1]), r[0].wrapping_sub(r[1])))),
            op!("mul a*b vs checked/wrapping_mul", 2, Aux::None, spec::always_true, |r, _x| same(&|| v(r[0] * r[1]), &|| anchored!(modal, r[0].checked_mul(r[1]), r[0].wrapping_mul(r[1])))),
            op!("div a/b vs checked_div", 2, Aux::None, spec::always_true, |r, _x| same(&|| v(r[0] / r[1]), &|| anchored!(strict, r[0].checked_div(r[1])))),
            op!("rem a%b vs checked_rem", 2, Aux::None, spec::always_true, |r, _x| same(&|| v(r[0] % r[1]), &|| anchored!(strict, r[0].checked_rem(r[1])))),
            op!("div a/=b vs checked_div", 2, Aux::None, spec::always_true, |r, _x| same(&|| { let mut a = r[0]; a /= r[1]; v(a) }, &|| anchored!(strict, r[0].checked_div(r[1])))),
            op!("rem a%=b vs checked_rem", 2, Aux::None, spec::always_true, |r, _x| same(&|| { let mut a = r[0]; a %= r[1]; v(a) }, &|| anchored!(strict, r[0].checked_rem(r[1])))),
            op!("shl a<<u32 vs checked/wrapping_shl", 1, Aux::Shift, spec::always_true, |r, x| same(&|| v(r[0] << (x as u32)), &|| anchored!(modal, r[0].checked_shl(x as u32), r[0].wrapping_shl(x as u32)))),
            op!("shr a>>u32 vs checked/wrapping_shr", 1, Aux::Shift, spec::always_true, |r, x| same(&|| v(r[0] >> (x as u32)), &|| anchored!(modal, r[0].checked_shr(x as u32), r[0].wrapping_shr(x as u32)))),
        ];
        t.extend(anchored);
        let unary: Vec<Op<$T, Z>> = vec![
            op!("not !a", 1, Aux::None, spec::always_true, |r, _x| same(&|| v(!r[0]), &|| v(r[0].not()))),
            op!("not !&a", 1, Aux::None, spec::always_true, |r, _x| same(&|| v(!&r[0]), &|| v(r[0].not()))),
            op!("default", 1, Aux::None, spec::always_true, |_r, _x| same(&|| v(<$T>::default()), &|| v(<$T>::ZERO))),
            op!("PartialEq::eq", 2, Aux::None, spec::always_true, |r, _x| same(&|| bo(PartialEq::eq(&r[0], &r[1])), &|| bo(r[0].eq(&r[1])))),
            op!("PartialEq::ne", 2, Aux::None, spec::always_true, |r, _x| same(&|| bo(PartialEq::ne(&r[0], &r[1])), &|| bo(r[0].ne(&r[1])))),
            op!("Ord::cmp", 2, Aux::None, spec::always_true, |r, _x| same(&|| ord(Ord::cmp(&r[0], &r[1])), &|| ord(r[0].cmp(&r[1])))),
            op!("PartialOrd::partial_cmp", 2, Aux::None, spec::always_true, |r, _x| same(&|| oord(PartialOrd::partial_cmp(&r[0], &r[1])), &|| oord(Some(r[0].cmp(&r[1]))))),
            op!("PartialOrd::lt", 2, Aux::None, spec::always_true, |r, _x| same(&|| bo(PartialOrd::lt(&r[0], &r[1])), &|| bo(r[0].lt(&r[1])))),
            op!("PartialOrd::le", 2, Aux::None, spec::always_true, |r, _x| same(&|| bo(PartialOrd::le(&r[0], &r[1])), &|| bo(r[0].le(&r[1])))),
            op!("PartialOrd::gt", 2, Aux::None, spec::always_true, |r, _x| same(&|| bo(PartialOrd::gt(&r[0], &r[1])), &|| bo(r[0].gt(&r[1])))),
            op!("PartialOrd::ge", 2, Aux::None, spec::always_true, |r, _x| same(&|| bo(PartialOrd::ge(&r[0], &r[1])), &|| bo(r[0].ge(&r[1])))),
            op!("Ord::max", 2, Aux::None, spec::always_true, |r, _x| same(&|| v(Ord::max(r[0], r[1])), &|| v(r[0].max(r[1])))),
            op!("Ord::min", 2, Aux::None, spec::always_true, |r, _x| same(&|| v(Ord::min(r[0], r[1])), &|| v(r[0].min(r[1])))),
            op!("FromStr", 1, Aux::None, spec::always_true, |r, _x| {
                let s = format!("{}", r[0]);
                same(&|| Obs::R(s.parse::<$T>().map(|t| t.z::<Z>()).map_err(|_| 1u8)), &|| Obs::R(<$T>::from_str_radix(&s, 10).map(|t| t.z::<Z>()).map_err(|_| 1u8)))
            }),
            op!("shl a<<u32", 1, Aux::Shift, spec::always_true, |r, x| same(&|| v(r[0] << (x as u32)), &|| v(r[0].shl(x as u32)))),
            op!("shr a>>u32", 1, Aux::Shift, spec::always_true, |r, x| same(&|| v(r[0] >> (x as u32)), &|| v(r[0].shr(x as u32)))),
        ];
        t.extend(unary);
        t.extend(typed_shift!($T, u8, <<, <<=, shl, "shl<u8> a<<s", "shl<u8> &a<<s", "shl<u8> a<<&s", "shl<u8> &a<<&s", "shl<u8> a<<=s", "shl<u8> a<<=&s"));
        t.extend(typed_shift!($T, u8, >>, >>=, shr, "shr<u8> a>>s", "shr<u8> &a>>s", "shr<u8> a>>&s", "shr<u8> &a>>&s", "shr<u8> a>>=s", "shr<u8> a>>=&s"));
        t.extend(typed_shift!($T, u16, <<, <<=, shl, "shl<u16> a<<s", "shl<u16> &a<<s", "shl<u16> a<<&s", "shl<u16> &a<<&s", "shl<u16> a<<=s", "shl<u16> a<<=&s"));
        t.extend(typed_shift!($T, u16, >>, >>=, shr, "shr<u16> a>>s", "shr<u16> &a>>s", "shr<u16> a>>&s", "shr<u16> &a>>&s", "shr<u16> a>>=s", "shr<u16> a>>=&s"));
        t.extend(typed_shift!($T, u32, <<, <<=, shl, "shl<u32> a<<s", "shl<u32> &a<<s", "shl<u32> a<<&s", "shl<u32> &a<<&s", "shl<u32> a<<=s", "shl<u32> a<<=&s"));
        t.extend(typed_shift!($T, u32, >>, >>=, shr, "shr<u32> a>>s", "shr<u32> &a>>s", "shr<u32> a>>&s", "shr<u32> &a>>&s", "shr<u32> a>>=s", "shr<u32> a>>=&s"));
        t.extend(typed_shift!($T, u64, <<, <<=, shl, "shl<u64> a<<s", "shl<u64> &a<<s", "shl<u64> a<<&s", "shl<u64> &a<<&s", "shl<u64> a<<=s", "shl<u64> a<<=&s"));
        t.extend(typed_shift!($T, u64, >>, >>=, shr, "shr<u64> a>>s", "shr<u64> &a>>s", "shr<u64> a>>&s", "shr<u64> &a>>&s", "shr<u64> a>>=s", "shr<u64> a>>=&s"));
        t.extend(typed_shift!($T, u128, <<, <<=, shl, "shl<u128> a<<s", "shl<u128> &a<<s", "shl<u128> a<<&s", "shl<u128> &a<<&s", "shl<u128> a<<=s", "shl<u128> a<<=&s"));
        t.extend(typed_shift!($T, u128, >>, >>=, shr, "shr<u128> a>>s", "shr<u128> &a>>s", "shr<u128> a>>&s", "shr<u128> &a>>&s", "shr<u128> a>>=s", "shr<u128> a>>=&s"));
        t.extend(typed_shift!($T, usize, <<, <<=, shl, "shl<usize> a<<s", "shl<usize> &a<<s", "shl<usize> a<<&s", "shl<usize> &a<<&s", "shl<usize> a<<=s", "shl<usize> a<<=&s"));
        t.extend(typed_shift!($T, usize, >>, >>=, shr, "shr<usize> a>>s", "shr<usize> &a>>s", "shr<usize> a>>&s", "shr<usize> &a>>&s", "shr<usize> a>>=s", "shr<usize> a>>=&s"));
        t.extend(typed_shift!($T, i8, <<, <<=, shl, "shl<i8> a<<s", "shl<i8> &a<<s", "shl<i8> a<<&s", "shl<i8> &a<<&s", "shl<i8> a<<=s", "shl<i8> a<<=&s"));
        t.extend(typed_shift!($T, i8, >>, >>=, shr, "shr<i8> a>>s", "shr<i8> &a>>s", "shr<i8> a>>&s", "shr<i8> &a>>&s", "shr<i8> a>>=s", "shr<i8> a>>=&s"));
        t.extend(typed_shift!($T, i16, <<, <<=, shl, "shl<i16> a<<s", "shl<i16> &a<<s", "shl<i16> a<<&s", "shl<i16> &a<<&s", "shl<i16> a<<=s", "shl<i16> a<<=&s"));
        t.extend(typed_shift!($T, i16, >>, >>=, shr, "shr<i16> a>>s", "shr<i16> &a>>s", "shr<i16> a>>&s", "shr<i16> &a>>&s", "shr<i16> a>>=s", "shr<i16> a>>=&s"));
        t.extend(typed_shift!($T, i32, <<, <<=, shl, "shl<i32> a<<s", "shl<i32> &a<<s", "shl<i32> a<<&s", "shl<i32> &a<<&s", "shl<i32> a<<=s", "shl<i32> a<<=&s"));
        t.extend(typed_shift!($T, i32, >>, >>=, shr, "shr<i32> a>>s", "shr<i32> &a>>s", "shr<i32> a>>&s", "shr<i32> &a>>&s", "shr<i32> a>>=s", "shr<i32> a>>=&s"));
        t.extend(typed_shift!($T, i64, <<, <<=, shl, "shl<i64> a<<s", "shl<i64> &a<<s", "shl<i64> a<<&s", "shl<i64> &a<<&s", "shl<i64> a<<=s", "shl<i64> a<<=&s"));
        t.extend(typed_shift!($T, i64, >>, >>=, shr, "shr<i64> a>>s", "shr<i64> &a>>s", "shr<i64> a>>&s", "shr<i64> &a>>&s", "shr<i64> a>>=s", "shr<i64> a>>=&s"));
        t.extend(typed_shift!($T, i128, <<, <<=, shl, "shl<i128> a<<s", "shl<i128> &a<<s", "shl<i128> a<<&s", "shl<i128> &a<<&s", "shl<i128> a<<=s", "shl<i128> a<<=&s"));
        t.extend(typed_shift!($T, i128, >>, >>=, shr, "shr<i128> a>>s", "shr<i128> &a>>s", "shr<i128> a>>&s", "shr<i128> &a>>&s", "shr<i128> a>>=s", "shr<i128> a>>=&s"));
        t.extend(typed_shift!($T, isize, <<, <<=, shl, "shl<isize> a<<s", "shl<isize> &a<<s", "shl<isize> a<<&s", "shl<isize> &a<<&s", "shl<isize> a<<=s", "shl<isize> a<<=&s"));
        t.extend(typed_shift!($T, isize, >>, >>=, shr, "shr<isize> a>>s", "shr<isize> &a>>s", "shr<isize> a>>&s", "shr<isize> &a>>&s", "shr<isize> a>>=s", "shr<isize> a>>=&s"));
        t.extend(bnum_shift!($T, $BU, <<, <<=, shl, "shl<BUint> a<<s", "shl<BUint> &a<<s", "shl<BUint> a<<&s", "shl<BUint> &a<<&s", "shl<BUint> a<<=s", "shl<BUint> a<<=&s"));
        t.extend(bnum_shift!($T, $BU, >>, >>=, shr, "shr<BUint> a>>s", "shr<BUint> &a>>s", "shr<BUint> a>>&s", "shr<BUint> &a>>&s", "shr<BUint> a>>=s", "shr<BUint> a>>=&s"));
        t.extend(bnum_shift!($T, $BI, <<, <<=, shl, "shl<BInt> a<<s", "shl<BInt> &a<<s", "shl<BInt> a<<&s", "shl<BInt> &a<<&s", "shl<BInt> a<<=s", "shl<BInt> a<<=&s"));
        t.extend(bnum_shift!($T, $BI, >>, >>=, shr, "shr<BInt> a>>s", "shr<BInt> &a>>s", "shr<BInt> a>>&s", "shr<BInt> &a>>&s", "shr<BInt> a>>=s", "shr<BInt> a>>=&s"));
        t.extend(assign_seq!($T));
        t
    }};
}

macro_rules! tables {
    ($fam:ident, $BUint:ident, $BInt:ident, $Digit:ty) => {
        pub mod $fam {
            use super::*;
            use bnum::{$BInt, $BUint};
            pub fn u<const N: usize, Z: ZNum>() -> Vec<Op<$BUint<N>, Z>> {
                let mut t = common!($BUint<N>, $BUint<2>, $BInt<2>);
                t.extend(folds!($BUint<N>, [<$BUint<N>>::ZERO, <$BUint<N>>::ONE, <$BUint<N>>::TWO, <$BUint<N>>::THREE, <$BUint<N>>::MAX, <$BUint<N>>::MAX.wrapping_sub(<$BUint<N>>::ONE), <$BUint<N>>::power_of_two(<$BUint<N>>::BITS / 2), <$BUint<N>>::power_of_two(<$BUint<N>>::BITS - 1)]));
                // digit operands: Add / Div / Rem <digit> when the exact result is representable
                let digit_ops: Vec<Op<$BUint<N>, Z>> = vec![
                    op!("Add<digit>", 2, Aux::None, spec::always_true, |r, _x| {
                        let d = r[1].digits()[0];
                        if r[0].checked_add(<$BUint<N>>::from_digit(d)).is_none() {
                            return Obs::B(true);
                        }
                        same(&|| v(r[0] + d), &|| v(r[0].add(<$BUint<N>>::from_digit(d))))
                    }),
                    op!("Div<digit>", 2, Aux::None, spec::always_true, |r, _x| {
                        let d = r[1].digits()[0];
                        if d == 0 {
                            return Obs::B(true);
                        }
                        same(&|| v(r[0] / d), &|| v(r[0].div(<$BUint<N>>::from_digit(d))))
                    }),
                    op!("Rem<digit>", 2, Aux::None, spec::always_true, |r, _x| {
                        let d = r[1].digits()[0];
                        if d == 0 {
                            return Obs::B(true);
                        }
                        same(&|| Obs::N((r[0] % d) as u64), &|| Obs::N(r[0].rem(<$BUint<N>>::from_digit(d)).digits()[0] as u64))
                    }),
                ];
                t.extend(digit_ops);
                t
            }
            pub fn i<const N: usize, Z: ZNum>() -> Vec<Op<$BInt<N>, Z>> {
                let mut t = common!($BInt<N>, $BUint<2>, $BInt<2>);
                t.extend(folds!($BInt<N>, [<$BInt<N>>::ZERO, <$BInt<N>>::ONE, <$BInt<N>>::TWO, <$BInt<N>>::NEG_ONE, <$BInt<N>>::MAX, <$BInt<N>>::MIN, <$BInt<N>>::NEG_TWO, <$BInt<N>>::MIN.wrapping_add(<$BInt<N>>::ONE)]));
                let neg: Vec<Op<$BInt<N>, Z>> = vec![
                    op!("neg -a", 1, Aux::None, spec::always_true, |r, _x| same(&|| v(-r[0]), &|| v(r[0].neg()))),
                    op!("neg -&a", 1, Aux::None, spec::always_true, |r, _x| same(&|| v(-&r[0]), &|| v(r[0].neg()))),
                    op!("neg -a vs checked/wrapping_neg", 1, Aux::None, spec::always_true, |r, _x| same(&|| v(-r[0]), &|| anchored!(modal, r[0].checked_neg(), r[0].wrapping_neg()))),
                ];
                t.extend(neg);
                t
            }
        }
    };
}
crate::for_families!(tables);

#[allow(dead_code)]
fn _unused(_: Amt) {}

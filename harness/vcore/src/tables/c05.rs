//! C05: shifts and rotations (amount = aux).
use refmodel::spec;
use refmodel::{Obs, ZNum};
use vengine::{op, oph, opn, Aux, Op};
use vengine::{ov, v, vf};

macro_rules! common {
    () => {
        vec![
            op!("checked_shl", 1, Aux::Shift, spec::checked_shl, |r, x| ov(r[0].checked_shl(x as u32))),
            op!("checked_shr", 1, Aux::Shift, spec::checked_shr, |r, x| ov(r[0].checked_shr(x as u32))),
            op!("wrapping_shl", 1, Aux::Shift, spec::wrapping_shl, |r, x| v(r[0].wrapping_shl(x as u32))),
            op!("wrapping_shr", 1, Aux::Shift, spec::wrapping_shr, |r, x| v(r[0].wrapping_shr(x as u32))),
            op!("overflowing_shl", 1, Aux::Shift, spec::overflowing_shl, |r, x| vf(r[0].overflowing_shl(x as u32))),
            op!("overflowing_shr", 1, Aux::Shift, spec::overflowing_shr, |r, x| vf(r[0].overflowing_shr(x as u32))),
            oph!("strict_shl", 1, Aux::Shift, spec::strict_shl, |r, x| v(r[0].strict_shl(x as u32))),
            oph!("strict_shr", 1, Aux::Shift, spec::strict_shr, |r, x| v(r[0].strict_shr(x as u32))),
            op!("unchecked_shl", 1, Aux::Shift, spec::unchecked_shl, |r, x| if r[0].checked_shl(x as u32).is_some() { v(unsafe { r[0].unchecked_shl(x as u32) }) } else { Obs::OV(None) }),
            op!("unchecked_shr", 1, Aux::Shift, spec::unchecked_shr, |r, x| if r[0].checked_shr(x as u32).is_some() { v(unsafe { r[0].unchecked_shr(x as u32) }) } else { Obs::OV(None) }),
            op!("unbounded_shl", 1, Aux::Shift, spec::unbounded_shl, |r, x| v(r[0].unbounded_shl(x as u32))),
            op!("unbounded_shr", 1, Aux::Shift, spec::unbounded_shr, |r, x| v(r[0].unbounded_shr(x as u32))),
            // `<<` / `>>` and the const twins with a u32 amount; amounts >= BITS (debug panic) belong to C04
            opn!("shl_op", 1, Aux::Shift, spec::shl, |r, x| v(r[0] << (x as u32))),
            opn!("shr_op", 1, Aux::Shift, spec::shr, |r, x| v(r[0] >> (x as u32))),
            opn!("const_shl", 1, Aux::Shift, spec::shl, |r, x| v(r[0].shl(x as u32))),
            opn!("const_shr", 1, Aux::Shift, spec::shr, |r, x| v(r[0].shr(x as u32))),
            op!("rotate_left", 1, Aux::Shift, spec::rotate_left, |r, x| v(r[0].rotate_left(x as u32))),
            op!("rotate_right", 1, Aux::Shift, spec::rotate_right, |r, x| v(r[0].rotate_right(x as u32))),
            op!("rotl_then_rotr", 1, Aux::Shift, spec::identity, |r, x| v(r[0].rotate_left(x as u32).rotate_right(x as u32))),
            op!("rotr_then_rotl", 1, Aux::Shift, spec::identity, |r, x| v(r[0].rotate_right(x as u32).rotate_left(x as u32))),
        ]
    };
}

macro_rules! tables {
    ($fam:ident, $BUint:ident, $BInt:ident, $Digit:ty) => {
        pub mod $fam {
            use super::*;
            use bnum::{$BInt, $BUint};
            pub fn u<const N: usize, Z: ZNum>() -> Vec<Op<$BUint<N>, Z>> {
                common!()
            }
            pub fn i<const N: usize, Z: ZNum>() -> Vec<Op<$BInt<N>, Z>> {
                common!()
            }
        }
    };
}
crate::for_families!(tables);

//! C07: comparison, equality, sign predicates (hashing is a separate engine in the binary).
use refmodel::spec;
use refmodel::ZNum;
use vengine::{op, Aux, Op};
use vengine::{bo, oord, ord, v};

macro_rules! common {
    () => {
        vec![
            op!("eq", 2, Aux::None, spec::eq, |r, _x| bo(r[0] == r[1])),
            op!("ne", 2, Aux::None, spec::ne, |r, _x| bo(r[0] != r[1])),
            op!("lt", 2, Aux::None, spec::lt, |r, _x| bo(r[0] < r[1])),
            op!("le", 2, Aux::None, spec::le, |r, _x| bo(r[0] <= r[1])),
            op!("gt", 2, Aux::None, spec::gt, |r, _x| bo(r[0] > r[1])),
            op!("ge", 2, Aux::None, spec::ge, |r, _x| bo(r[0] >= r[1])),
            op!("cmp", 2, Aux::None, spec::cmp, |r, _x| ord(Ord::cmp(&r[0], &r[1]))),
            op!("partial_cmp", 2, Aux::None, spec::partial_cmp, |r, _x| oord(PartialOrd::partial_cmp(&r[0], &r[1]))),
            op!("ord_min", 2, Aux::None, spec::min, |r, _x| v(Ord::min(r[0], r[1]))),
            op!("ord_max", 2, Aux::None, spec::max, |r, _x| v(Ord::max(r[0], r[1]))),
            op!("ord_clamp", 3, Aux::None, spec::clamp, |r, _x| v(Ord::clamp(r[0], r[1], r[2]))),
            op!("const_eq", 2, Aux::None, spec::eq, |r, _x| bo(r[0].eq(&r[1]))),
            op!("const_ne", 2, Aux::None, spec::ne, |r, _x| bo(r[0].ne(&r[1]))),
            op!("const_lt", 2, Aux::None, spec::lt, |r, _x| bo(r[0].lt(&r[1]))),
            op!("const_le", 2, Aux::None, spec::le, |r, _x| bo(r[0].le(&r[1]))),
            op!("const_gt", 2, Aux::None, spec::gt, |r, _x| bo(r[0].gt(&r[1]))),
            op!("const_ge", 2, Aux::None, spec::ge, |r, _x| bo(r[0].ge(&r[1]))),
            op!("const_cmp", 2, Aux::None, spec::cmp, |r, _x| ord(r[0].cmp(&r[1]))),
            op!("const_min", 2, Aux::None, spec::min, |r, _x| v(r[0].min(r[1]))),
            op!("const_max", 2, Aux::None, spec::max, |r, _x| v(r[0].max(r[1]))),
            op!("const_clamp", 3, Aux::None, spec::clamp, |r, _x| v(r[0].clamp(r[1], r[2]))),
            // Hash / Eq coherence: equality <=> identical digit arrays; equal values feed the same byte
            // stream to a Hasher (and with std's DefaultHasher give the same digest)
            op!("eq_iff_same_digits", 2, Aux::None, spec::always_true, |r, _x| bo((r[0] == r[1]) == (vengine::Subj::le(&r[0]) == vengine::Subj::le(&r[1])))),
            op!("equal_values_hash_equally", 2, Aux::None, spec::always_true, |r, _x| {
                use std::hash::{Hash, Hasher};
                let same_stream = vengine::hash_stream(&r[0]) == vengine::hash_stream(&r[1]);
                let digest = |x: &_| { let mut h = std::collections::hash_map::DefaultHasher::new(); Hash::hash(x, &mut h); h.finish() };
                bo(r[0] != r[1] || (same_stream && digest(&r[0]) == digest(&r[1])))
            }),
            // the same value reached by different routes (arithmetic, parse(print), digit round trip) hashes equally
            op!("recomputed_value_hashes_equally", 1, Aux::None, spec::always_true, |r, _x| {
                let a = r[0];
                let b = a.wrapping_add(a).wrapping_sub(a);
                let mut c = a;
                if let Ok(p) = format!("{}", a).parse() {
                    c = p;
                }
                let d = !(!a);
                let h = vengine::hash_stream(&a);
                bo(b == a && c == a && d == a && vengine::hash_stream(&b) == h && vengine::hash_stream(&c) == h && vengine::hash_stream(&d) == h)
            }),
        ]
    };
}

macro_rules! tables {
    ($fam:ident, $BUint:ident, $BInt:ident, $Digit:ty) => {
        pub mod $fam {
            use super::*;
            use bnum::{$BInt, $BUint};
            pub fn u<const N: usize, Z: ZNum>() -> Vec<Op<$BUint<N>, Z>> {
                common!()
            }
            pub fn i<const N: usize, Z: ZNum>() -> Vec<Op<$BInt<N>, Z>> {
                let mut t: Vec<Op<$BInt<N>, Z>> = common!();
                let more: Vec<Op<$BInt<N>, Z>> = vec![
                    op!("signum", 1, Aux::None, spec::signum, |r, _x| v(r[0].signum())),
                    op!("is_positive", 1, Aux::None, spec::is_positive, |r, _x| bo(r[0].is_positive())),
                    op!("is_negative", 1, Aux::None, spec::is_negative, |r, _x| bo(r[0].is_negative())),
                ];
                t.extend(more);
                t
            }
        }
    };
}
crate::for_families!(tables);

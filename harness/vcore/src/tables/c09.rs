//! C09 (part): bit-preserving reinterpretation.
use refmodel::spec;
use refmodel::ZNum;
use vengine::{op, Aux, Op};
use vengine::v;

macro_rules! tables {
    ($fam:ident, $BUint:ident, $BInt:ident, $Digit:ty) => {
        pub mod $fam {
            use super::*;
            use bnum::{$BInt, $BUint};
            pub fn u<const N: usize, Z: ZNum>() -> Vec<Op<$BUint<N>, Z>> {
                vec![
                    op!("cast_signed", 1, Aux::None, spec::reinterpret_signed, |r, _x| v(r[0].cast_signed())),
                    op!("from_bits", 1, Aux::None, spec::reinterpret_signed, |r, _x| v($BInt::<N>::from_bits(r[0]))),
                    op!("cast_signed_cast_unsigned", 1, Aux::None, spec::identity, |r, _x| v(r[0].cast_signed().cast_unsigned())),
                ]
            }
            pub fn i<const N: usize, Z: ZNum>() -> Vec<Op<$BInt<N>, Z>> {
                vec![
                    op!("cast_unsigned", 1, Aux::None, spec::reinterpret_unsigned, |r, _x| v(r[0].cast_unsigned())),
                    op!("to_bits", 1, Aux::None, spec::reinterpret_unsigned, |r, _x| v(r[0].to_bits())),
                    op!("as_bits", 1, Aux::None, spec::reinterpret_unsigned, |r, _x| v(*r[0].as_bits())),
                    op!("to_bits_from_bits", 1, Aux::None, spec::identity, |r, _x| v($BInt::<N>::from_bits(r[0].to_bits()))),
                ]
            }
        }
    };
}
crate::for_families!(tables);

//! C06: bitwise logic, counts, bit access.
use refmodel::spec;
use refmodel::ZNum;
use vengine::{op, Aux, Op};
use vengine::{bo, n, ov, v};

macro_rules! common {
    () => {
        vec![
            op!("bitand", 2, Aux::None, spec::bitand, |r, _x| v(r[0] & r[1])),
            op!("bitor", 2, Aux::None, spec::bitor, |r, _x| v(r[0] | r[1])),
            op!("bitxor", 2, Aux::None, spec::bitxor, |r, _x| v(r[0] ^ r[1])),
            op!("const_bitand", 2, Aux::None, spec::bitand, |r, _x| v(r[0].bitand(r[1]))),
            op!("const_bitor", 2, Aux::None, spec::bitor, |r, _x| v(r[0].bitor(r[1]))),
            op!("const_bitxor", 2, Aux::None, spec::bitxor, |r, _x| v(r[0].bitxor(r[1]))),
            op!("not", 1, Aux::None, spec::not, |r, _x| v(!r[0])),
            op!("const_not", 1, Aux::None, spec::not, |r, _x| v(r[0].not())),
            op!("count_ones", 1, Aux::None, spec::count_ones, |r, _x| n(r[0].count_ones())),
            op!("count_zeros", 1, Aux::None, spec::count_zeros, |r, _x| n(r[0].count_zeros())),
            op!("leading_zeros", 1, Aux::None, spec::leading_zeros, |r, _x| n(r[0].leading_zeros())),
            op!("leading_ones", 1, Aux::None, spec::leading_ones, |r, _x| n(r[0].leading_ones())),
            op!("trailing_zeros", 1, Aux::None, spec::trailing_zeros, |r, _x| n(r[0].trailing_zeros())),
            op!("trailing_ones", 1, Aux::None, spec::trailing_ones, |r, _x| n(r[0].trailing_ones())),
            op!("bits", 1, Aux::None, spec::bits, |r, _x| n(r[0].bits())),
            op!("bit", 1, Aux::BitIdx, spec::bit, |r, x| bo(r[0].bit(x as u32))),
            op!("is_power_of_two", 1, Aux::None, spec::is_power_of_two, |r, _x| bo(r[0].is_power_of_two())),
            op!("swap_bytes", 1, Aux::None, spec::swap_bytes, |r, _x| v(r[0].swap_bytes())),
            op!("reverse_bits", 1, Aux::None, spec::reverse_bits, |r, _x| v(r[0].reverse_bits())),
            op!("swap_bytes_twice", 1, Aux::None, spec::identity, |r, _x| v(r[0].swap_bytes().swap_bytes())),
            op!("reverse_bits_twice", 1, Aux::None, spec::identity, |r, _x| v(r[0].reverse_bits().reverse_bits())),
            op!("is_zero", 1, Aux::None, spec::is_zero, |r, _x| bo(r[0].is_zero())),
            op!("is_one", 1, Aux::None, spec::is_one, |r, _x| bo(r[0].is_one())),
        ]
    };
}

macro_rules! tables {
    ($fam:ident, $BUint:ident, $BInt:ident, $Digit:ty) => {
        pub mod $fam {
            use super::*;
            use bnum::{$BInt, $BUint};
            pub fn u<const N: usize, Z: ZNum>() -> Vec<Op<$BUint<N>, Z>> {
                let mut t: Vec<Op<$BUint<N>, Z>> = common!();
                let more: Vec<Op<$BUint<N>, Z>> = vec![
                    op!("set_bit", 1, Aux::SetBit, spec::set_bit, |r, x| {
                        let mut a = r[0];
                        a.set_bit((x & 0xffff_ffff) as u32, (x >> 32) & 1 == 1);
                        v(a)
                    }),
                    op!("set_bit_twice", 1, Aux::Custom, spec::set_bit_twice, |r, x| {
                        let mut a = r[0];
                        a.set_bit((x & 0xffff) as u32, (x >> 16) & 1 == 1);
                        a.set_bit(((x >> 17) & 0xffff) as u32, (x >> 33) & 1 == 1);
                        v(a)
                    }),
                    op!("power_of_two", 1, Aux::BitIdx, spec::power_of_two, |_r, x| v($BUint::<N>::power_of_two(x as u32))),
                    op!("checked_next_power_of_two", 1, Aux::None, spec::checked_next_power_of_two, |r, _x| ov(r[0].checked_next_power_of_two())),
                    op!("wrapping_next_power_of_two", 1, Aux::None, spec::wrapping_next_power_of_two, |r, _x| v(r[0].wrapping_next_power_of_two())),
                ];
                t.extend(more);
                t
            }
            pub fn i<const N: usize, Z: ZNum>() -> Vec<Op<$BInt<N>, Z>> {
                common!()
            }
        }
    };
}
crate::for_families!(tables);

//! C16: value-level operations whose result must commute with widening (and be independent of the
//! digit type).  The spec slot is unused in differential exploration.
use refmodel::spec;
use refmodel::{Obs, ZNum};
use vengine::{op, Aux, Op, Subj};
use vengine::{bo, ord, ov};

macro_rules! common {
    ($T:ty) => {
        vec![
            op!("checked_add", 2, Aux::None, spec::no_panic, |r, _x| ov(r[0].checked_add(r[1]))),
            op!("checked_sub", 2, Aux::None, spec::no_panic, |r, _x| ov(r[0].checked_sub(r[1]))),
            op!("checked_mul", 2, Aux::None, spec::no_panic, |r, _x| ov(r[0].checked_mul(r[1]))),
            op!("checked_div", 2, Aux::None, spec::no_panic, |r, _x| ov(r[0].checked_div(r[1]))),
            // the exact remainder is always representable (MIN % -1 = 0): use the wrapping form, None only for a zero divisor
            op!("rem_exact", 2, Aux::None, spec::no_panic, |r, _x| if r[1].is_zero() { Obs::OV(None) } else { ov(Some(r[0].wrapping_rem(r[1]))) }),
            op!("checked_div_euclid", 2, Aux::None, spec::no_panic, |r, _x| ov(r[0].checked_div_euclid(r[1]))),
            op!("rem_euclid_exact", 2, Aux::None, spec::no_panic, |r, _x| if r[1].is_zero() { Obs::OV(None) } else { ov(Some(r[0].wrapping_rem_euclid(r[1]))) }),
            op!("checked_neg", 1, Aux::None, spec::no_panic, |r, _x| ov(r[0].checked_neg())),
            op!("checked_pow", 1, Aux::Exp, spec::no_panic, |r, x| ov(r[0].checked_pow(x as u32))),
            op!("shl_exact", 1, Aux::Shift, spec::no_panic, |r, x| {
                let s = x as u32;
                if r[0].is_zero() {
                    // 0 * 2^s = 0 is representable for every s
                    ov(Some(r[0]))
                } else if s < <$T as Subj>::BITS {
                    let y = r[0].wrapping_shl(s);
                    if y.wrapping_shr(s) == r[0] {
                        ov(Some(y))
                    } else {
                        Obs::OV(None)
                    }
                } else {
                    Obs::OV(None)
                }
            }),
            op!("cmp", 2, Aux::None, spec::no_panic, |r, _x| ord(Ord::cmp(&r[0], &r[1]))),
            op!("eq", 2, Aux::None, spec::no_panic, |r, _x| bo(r[0] == r[1])),
            op!("to_string", 1, Aux::None, spec::no_panic, |r, _x| Obs::S(format!("{}", r[0]))),
            op!("parse_decimal_of_display", 1, Aux::None, spec::no_panic, |r, _x| ov(format!("{}", r[0]).parse::<$T>().ok())),
        ]
    };
}

macro_rules! tables {
    ($fam:ident, $BUint:ident, $BInt:ident, $Digit:ty) => {
        pub mod $fam {
            use super::*;
            use bnum::{$BInt, $BUint};
            pub fn u<const N: usize, Z: ZNum>() -> Vec<Op<$BUint<N>, Z>> {
                common!($BUint<N>)
            }
            pub fn i<const N: usize, Z: ZNum>() -> Vec<Op<$BInt<N>, Z>> {
                let mut t: Vec<Op<$BInt<N>, Z>> = common!($BInt<N>);
                let more: Vec<Op<$BInt<N>, Z>> = vec![op!("checked_abs", 1, Aux::None, spec::no_panic, |r, _x| ov(r[0].checked_abs()))];
                t.extend(more);
                t
            }
        }
    };
}
crate::for_families!(tables);

//! C02: multiplication.
use refmodel::spec;
use refmodel::{Obs, ZNum};
use vengine::{op, oph, Aux, Op};
use vengine::{ov, pr, v, vf};

macro_rules! tables {
    ($fam:ident, $BUint:ident, $BInt:ident, $Digit:ty) => {
        pub mod $fam {
            use super::*;
            use bnum::{$BInt, $BUint};
            pub fn u<const N: usize, Z: ZNum>() -> Vec<Op<$BUint<N>, Z>> {
                vec![
                    op!("overflowing_mul", 2, Aux::None, spec::overflowing_mul, |r, _x| vf(r[0].overflowing_mul(r[1]))),
                    op!("checked_mul", 2, Aux::None, spec::checked_mul, |r, _x| ov(r[0].checked_mul(r[1]))),
                    op!("wrapping_mul", 2, Aux::None, spec::wrapping_mul, |r, _x| v(r[0].wrapping_mul(r[1]))),
                    op!("saturating_mul", 2, Aux::None, spec::saturating_mul, |r, _x| v(r[0].saturating_mul(r[1]))),
                    oph!("strict_mul", 2, Aux::None, spec::strict_mul, |r, _x| v(r[0].strict_mul(r[1]))),
                    op!("unchecked_mul", 2, Aux::None, spec::unchecked_mul, |r, _x| if r[0].checked_mul(r[1]).is_some() { v(unsafe { r[0].unchecked_mul(r[1]) }) } else { Obs::OV(None) }),
                    op!("widening_mul", 2, Aux::None, spec::widening_mul, |r, _x| pr(r[0].widening_mul(r[1]))),
                    op!("carrying_mul", 3, Aux::None, spec::carrying_mul, |r, _x| pr(r[0].carrying_mul(r[1], r[2]))),
                ]
            }
            pub fn i<const N: usize, Z: ZNum>() -> Vec<Op<$BInt<N>, Z>> {
                vec![
                    op!("overflowing_mul", 2, Aux::None, spec::overflowing_mul, |r, _x| vf(r[0].overflowing_mul(r[1]))),
                    op!("checked_mul", 2, Aux::None, spec::checked_mul, |r, _x| ov(r[0].checked_mul(r[1]))),
                    op!("wrapping_mul", 2, Aux::None, spec::wrapping_mul, |r, _x| v(r[0].wrapping_mul(r[1]))),
                    op!("saturating_mul", 2, Aux::None, spec::saturating_mul, |r, _x| v(r[0].saturating_mul(r[1]))),
                    oph!("strict_mul", 2, Aux::None, spec::strict_mul, |r, _x| v(r[0].strict_mul(r[1]))),
                    op!("unchecked_mul", 2, Aux::None, spec::unchecked_mul, |r, _x| if r[0].checked_mul(r[1]).is_some() { v(unsafe { r[0].unchecked_mul(r[1]) }) } else { Obs::OV(None) }),
                ]
            }
        }
    };
}
crate::for_families!(tables);

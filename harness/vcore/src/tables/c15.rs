//! C15 (part): endianness helpers on this little-endian target.
use refmodel::spec;
use refmodel::ZNum;
use vengine::v;
use vengine::{op, Aux, Op};

macro_rules! common {
    ($T:ty) => {
        vec![
            op!("to_le", 1, Aux::None, spec::identity, |r, _x| v(r[0].to_le())),
            op!("from_le", 1, Aux::None, spec::identity, |r, _x| v(<$T>::from_le(r[0]))),
            op!("to_be", 1, Aux::None, spec::swap_bytes, |r, _x| v(r[0].to_be())),
            op!("from_be", 1, Aux::None, spec::swap_bytes, |r, _x| v(<$T>::from_be(r[0]))),
            op!("from_be_to_be", 1, Aux::None, spec::identity, |r, _x| v(<$T>::from_be(r[0].to_be()))),
        ]
    };
}

macro_rules! tables {
    ($fam:ident, $BUint:ident, $BInt:ident, $Digit:ty) => {
        pub mod $fam {
            use super::*;
            use bnum::{$BInt, $BUint};
            pub fn u<const N: usize, Z: ZNum>() -> Vec<Op<$BUint<N>, Z>> {
                common!($BUint<N>)
            }
            pub fn i<const N: usize, Z: ZNum>() -> Vec<Op<$BInt<N>, Z>> {
                common!($BInt<N>)
            }
        }
    };
}
crate::for_families!(tables);

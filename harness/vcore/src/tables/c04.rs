//! C04: panic / no-panic per build mode.  Operators and unsuffixed methods are compared in full
//! (the statement fixes the wrapped value in release builds); strict_* forms are compared on
//! panic / no-panic only; checked_* must never panic; wrapping_/overflowing_/saturating_ forms
//! panic only for a zero divisor.
use refmodel::spec;
use refmodel::ZNum;
use vengine::{op, opp, Aux, Op, ShiftRhs, Subj};
use vengine::{bo, n, on, ov, v, vf};

macro_rules! typed_shift_ops {
    ($T:ty, $($rhs:ty, $ln:expr, $rn:expr);*) => {
        vec![$(
            op!($ln, 1, Aux::K(<$rhs as ShiftRhs>::K), spec::shl_typed, |r, x| v(r[0] << <$rhs as ShiftRhs>::from_amt(spec::shift_candidate(<$T as Subj>::BITS, x)))),
            op!($rn, 1, Aux::K(<$rhs as ShiftRhs>::K), spec::shr_typed, |r, x| v(r[0] >> <$rhs as ShiftRhs>::from_amt(spec::shift_candidate(<$T as Subj>::BITS, x)))),
        )*]
    };
}

macro_rules! common {
    ($T:ty) => {{
        let mut t: Vec<Op<$T, Z>> = vec![
            // operators
            op!("op_add", 2, Aux::None, spec::add, |r, _x| v(r[0] + r[1])),
            op!("op_sub", 2, Aux::None, spec::sub, |r, _x| v(r[0] - r[1])),
            op!("op_mul", 2, Aux::None, spec::mul, |r, _x| v(r[0] * r[1])),
            op!("op_div", 2, Aux::None, spec::div, |r, _x| v(r[0] / r[1])),
            op!("op_rem", 2, Aux::None, spec::rem, |r, _x| v(r[0] % r[1])),
            // unsuffixed methods
            op!("pow", 1, Aux::Exp, spec::pow, |r, x| v(r[0].pow(x as u32))),
            op!("next_multiple_of", 2, Aux::None, spec::next_multiple_of, |r, _x| v(r[0].next_multiple_of(r[1]))),
            op!("ilog", 2, Aux::None, spec::ilog, |r, _x| n(r[0].ilog(r[1]))),
            op!("ilog2", 1, Aux::None, spec::ilog2, |r, _x| n(r[0].ilog2())),
            op!("ilog10", 1, Aux::None, spec::ilog10, |r, _x| n(r[0].ilog10())),
            opp!("div_euclid", 2, Aux::None, spec::div_euclid, |r, _x| v(r[0].div_euclid(r[1]))),
            opp!("rem_euclid", 2, Aux::None, spec::rem_euclid, |r, _x| v(r[0].rem_euclid(r[1]))),
            opp!("div_floor", 2, Aux::None, spec::div_floor, |r, _x| v(r[0].div_floor(r[1]))),
            opp!("div_ceil", 2, Aux::None, spec::div_ceil, |r, _x| v(r[0].div_ceil(r[1]))),
            // strict forms: panic exactly on overflow / zero divisor, both build modes
            opp!("strict_add", 2, Aux::None, spec::strict_add, |r, _x| v(r[0].strict_add(r[1]))),
            opp!("strict_sub", 2, Aux::None, spec::strict_sub, |r, _x| v(r[0].strict_sub(r[1]))),
            opp!("strict_mul", 2, Aux::None, spec::strict_mul, |r, _x| v(r[0].strict_mul(r[1]))),
            opp!("strict_div", 2, Aux::None, spec::strict_div, |r, _x| v(r[0].strict_div(r[1]))),
            opp!("strict_rem", 2, Aux::None, spec::strict_rem, |r, _x| v(r[0].strict_rem(r[1]))),
            opp!("strict_div_euclid", 2, Aux::None, spec::strict_div_euclid, |r, _x| v(r[0].strict_div_euclid(r[1]))),
            opp!("strict_rem_euclid", 2, Aux::None, spec::strict_rem_euclid, |r, _x| v(r[0].strict_rem_euclid(r[1]))),
            opp!("strict_neg", 1, Aux::None, spec::strict_neg, |r, _x| v(r[0].strict_neg())),
            opp!("strict_shl", 1, Aux::Shift, spec::strict_shl, |r, x| v(r[0].strict_shl(x as u32))),
            opp!("strict_shr", 1, Aux::Shift, spec::strict_shr, |r, x| v(r[0].strict_shr(x as u32))),
            opp!("strict_pow", 1, Aux::Exp, spec::strict_pow, |r, x| v(r[0].strict_pow(x as u32))),
            // checked forms never panic
            op!("checked_add", 2, Aux::None, spec::no_panic, |r, _x| ov(r[0].checked_add(r[1]))),
            op!("checked_sub", 2, Aux::None, spec::no_panic, |r, _x| ov(r[0].checked_sub(r[1]))),
            op!("checked_mul", 2, Aux::None, spec::no_panic, |r, _x| ov(r[0].checked_mul(r[1]))),
            op!("checked_div", 2, Aux::None, spec::no_panic, |r, _x| ov(r[0].checked_div(r[1]))),
            op!("checked_rem", 2, Aux::None, spec::no_panic, |r, _x| ov(r[0].checked_rem(r[1]))),
            op!("checked_div_euclid", 2, Aux::None, spec::no_panic, |r, _x| ov(r[0].checked_div_euclid(r[1]))),
            op!("checked_rem_euclid", 2, Aux::None, spec::no_panic, |r, _x| ov(r[0].checked_rem_euclid(r[1]))),
            op!("checked_neg", 1, Aux::None, spec::no_panic, |r, _x| ov(r[0].checked_neg())),
            op!("checked_shl", 1, Aux::Shift, spec::no_panic, |r, x| ov(r[0].checked_shl(x as u32))),
            op!("checked_shr", 1, Aux::Shift, spec::no_panic, |r, x| ov(r[0].checked_shr(x as u32))),
            op!("checked_pow", 1, Aux::Exp, spec::no_panic, |r, x| ov(r[0].checked_pow(x as u32))),
            op!("checked_next_multiple_of", 2, Aux::None, spec::no_panic, |r, _x| ov(r[0].checked_next_multiple_of(r[1]))),
            op!("checked_ilog", 2, Aux::None, spec::no_panic, |r, _x| on(r[0].checked_ilog(r[1]))),
            op!("checked_ilog2", 1, Aux::None, spec::no_panic, |r, _x| on(r[0].checked_ilog2())),
            op!("checked_ilog10", 1, Aux::None, spec::no_panic, |r, _x| on(r[0].checked_ilog10())),
            // wrapping / overflowing / saturating forms panic only for a zero divisor
            op!("wrapping_add", 2, Aux::None, spec::no_panic, |r, _x| v(r[0].wrapping_add(r[1]))),
            op!("wrapping_sub", 2, Aux::None, spec::no_panic, |r, _x| v(r[0].wrapping_sub(r[1]))),
            op!("wrapping_mul", 2, Aux::None, spec::no_panic, |r, _x| v(r[0].wrapping_mul(r[1]))),
            op!("wrapping_neg", 1, Aux::None, spec::no_panic, |r, _x| v(r[0].wrapping_neg())),
            op!("wrapping_shl", 1, Aux::Shift, spec::no_panic, |r, x| v(r[0].wrapping_shl(x as u32))),
            op!("wrapping_shr", 1, Aux::Shift, spec::no_panic, |r, x| v(r[0].wrapping_shr(x as u32))),
            op!("wrapping_pow", 1, Aux::Exp, spec::no_panic, |r, x| v(r[0].wrapping_pow(x as u32))),
            op!("wrapping_div", 2, Aux::None, spec::panic_iff_zero_divisor, |r, _x| v(r[0].wrapping_div(r[1]))),
            op!("wrapping_rem", 2, Aux::None, spec::panic_iff_zero_divisor, |r, _x| v(r[0].wrapping_rem(r[1]))),
            op!("wrapping_div_euclid", 2, Aux::None, spec::panic_iff_zero_divisor, |r, _x| v(r[0].wrapping_div_euclid(r[1]))),
            op!("wrapping_rem_euclid", 2, Aux::None, spec::panic_iff_zero_divisor, |r, _x| v(r[0].wrapping_rem_euclid(r[1]))),
            op!("overflowing_add", 2, Aux::None, spec::no_panic, |r, _x| vf(r[0].overflowing_add(r[1]))),
            op!("overflowing_sub", 2, Aux::None, spec::no_panic, |r, _x| vf(r[0].overflowing_sub(r[1]))),
            op!("overflowing_mul", 2, Aux::None, spec::no_panic, |r, _x| vf(r[0].overflowing_mul(r[1]))),
            op!("overflowing_neg", 1, Aux::None, spec::no_panic, |r, _x| vf(r[0].overflowing_neg())),
            op!("overflowing_shl", 1, Aux::Shift, spec::no_panic, |r, x| vf(r[0].overflowing_shl(x as u32))),
            op!("overflowing_shr", 1, Aux::Shift, spec::no_panic, |r, x| vf(r[0].overflowing_shr(x as u32))),
            op!("overflowing_pow", 1, Aux::Exp, spec::no_panic, |r, x| vf(r[0].overflowing_pow(x as u32))),
            op!("overflowing_div", 2, Aux::None, spec::panic_iff_zero_divisor, |r, _x| vf(r[0].overflowing_div(r[1]))),
            op!("overflowing_rem", 2, Aux::None, spec::panic_iff_zero_divisor, |r, _x| vf(r[0].overflowing_rem(r[1]))),
            op!("overflowing_div_euclid", 2, Aux::None, spec::panic_iff_zero_divisor, |r, _x| vf(r[0].overflowing_div_euclid(r[1]))),
            op!("overflowing_rem_euclid", 2, Aux::None, spec::panic_iff_zero_divisor, |r, _x| vf(r[0].overflowing_rem_euclid(r[1]))),
            op!("saturating_add", 2, Aux::None, spec::no_panic, |r, _x| v(r[0].saturating_add(r[1]))),
            op!("saturating_sub", 2, Aux::None, spec::no_panic, |r, _x| v(r[0].saturating_sub(r[1]))),
            op!("saturating_mul", 2, Aux::None, spec::no_panic, |r, _x| v(r[0].saturating_mul(r[1]))),
            op!("saturating_pow", 1, Aux::Exp, spec::no_panic, |r, x| v(r[0].saturating_pow(x as u32))),
            op!("saturating_div", 2, Aux::None, spec::panic_iff_zero_divisor, |r, _x| v(r[0].saturating_div(r[1]))),
            op!("is_power_of_two", 1, Aux::None, spec::no_panic, |r, _x| bo(r[0].is_power_of_two())),
        ];
        let sh: Vec<Op<$T, Z>> = typed_shift_ops!($T,
            u8, "shl_u8", "shr_u8"; u16, "shl_u16", "shr_u16"; u32, "shl_u32", "shr_u32"; u64, "shl_u64", "shr_u64";
            u128, "shl_u128", "shr_u128"; usize, "shl_usize", "shr_usize"; i8, "shl_i8", "shr_i8"; i16, "shl_i16", "shr_i16";
            i32, "shl_i32", "shr_i32"; i64, "shl_i64", "shr_i64"; i128, "shl_i128", "shr_i128"; isize, "shl_isize", "shr_isize");
        t.extend(sh);
        t
    }};
}

macro_rules! tables {
    ($fam:ident, $BUint:ident, $BInt:ident, $Digit:ty) => {
        pub mod $fam {
            use super::*;
            use bnum::{$BInt, $BUint};
            pub fn u<const N: usize, Z: ZNum>() -> Vec<Op<$BUint<N>, Z>> {
                let mut t = common!($BUint<N>);
                let more: Vec<Op<$BUint<N>, Z>> = vec![
                    op!("next_power_of_two", 1, Aux::None, spec::next_power_of_two, |r, _x| v(r[0].next_power_of_two())),
                    op!("checked_next_power_of_two", 1, Aux::None, spec::no_panic, |r, _x| ov(r[0].checked_next_power_of_two())),
                    op!("wrapping_next_power_of_two", 1, Aux::None, spec::no_panic, |r, _x| v(r[0].wrapping_next_power_of_two())),
                    opp!("strict_add_signed", 2, Aux::None, spec::strict_add_signed, |r, _x| v(r[0].strict_add_signed(r[1].cast_signed()))),
                    op!("checked_add_signed", 2, Aux::None, spec::no_panic, |r, _x| ov(r[0].checked_add_signed(r[1].cast_signed()))),
                    op!("wrapping_add_signed", 2, Aux::None, spec::no_panic, |r, _x| v(r[0].wrapping_add_signed(r[1].cast_signed()))),
                    op!("overflowing_add_signed", 2, Aux::None, spec::no_panic, |r, _x| vf(r[0].overflowing_add_signed(r[1].cast_signed()))),
                    op!("saturating_add_signed", 2, Aux::None, spec::no_panic, |r, _x| v(r[0].saturating_add_signed(r[1].cast_signed()))),
                ];
                t.extend(more);
                t
            }
            pub fn i<const N: usize, Z: ZNum>() -> Vec<Op<$BInt<N>, Z>> {
                let mut t = common!($BInt<N>);
                let more: Vec<Op<$BInt<N>, Z>> = vec![
                    op!("op_neg", 1, Aux::None, spec::neg, |r, _x| v(-r[0])),
                    op!("const_neg", 1, Aux::None, spec::neg, |r, _x| v(r[0].neg())),
                    op!("abs", 1, Aux::None, spec::abs, |r, _x| v(r[0].abs())),
                    opp!("strict_abs", 1, Aux::None, spec::strict_abs, |r, _x| v(r[0].strict_abs())),
                    op!("checked_abs", 1, Aux::None, spec::no_panic, |r, _x| ov(r[0].checked_abs())),
                    op!("wrapping_abs", 1, Aux::None, spec::no_panic, |r, _x| v(r[0].wrapping_abs())),
                    op!("overflowing_abs", 1, Aux::None, spec::no_panic, |r, _x| vf(r[0].overflowing_abs())),
                    op!("saturating_abs", 1, Aux::None, spec::no_panic, |r, _x| v(r[0].saturating_abs())),
                    op!("saturating_neg", 1, Aux::None, spec::no_panic, |r, _x| v(r[0].saturating_neg())),
                    op!("unsigned_abs", 1, Aux::None, spec::no_panic, |r, _x| v(r[0].unsigned_abs())),
                    opp!("strict_add_unsigned", 2, Aux::None, spec::strict_add_unsigned, |r, _x| v(r[0].strict_add_unsigned(r[1].cast_unsigned()))),
                    opp!("strict_sub_unsigned", 2, Aux::None, spec::strict_sub_unsigned, |r, _x| v(r[0].strict_sub_unsigned(r[1].cast_unsigned()))),
                    op!("checked_add_unsigned", 2, Aux::None, spec::no_panic, |r, _x| ov(r[0].checked_add_unsigned(r[1].cast_unsigned()))),
                    op!("checked_sub_unsigned", 2, Aux::None, spec::no_panic, |r, _x| ov(r[0].checked_sub_unsigned(r[1].cast_unsigned()))),
                    op!("wrapping_add_unsigned", 2, Aux::None, spec::no_panic, |r, _x| v(r[0].wrapping_add_unsigned(r[1].cast_unsigned()))),
                    op!("wrapping_sub_unsigned", 2, Aux::None, spec::no_panic, |r, _x| v(r[0].wrapping_sub_unsigned(r[1].cast_unsigned()))),
                    op!("saturating_add_unsigned", 2, Aux::None, spec::no_panic, |r, _x| v(r[0].saturating_add_unsigned(r[1].cast_unsigned()))),
                    op!("saturating_sub_unsigned", 2, Aux::None, spec::no_panic, |r, _x| v(r[0].saturating_sub_unsigned(r[1].cast_unsigned()))),
                ];
                t.extend(more);
                t
            }
        }
    };
}
crate::for_families!(tables);

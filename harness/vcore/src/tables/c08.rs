//! C08: powers (exponent = aux) and integer logarithms.
use refmodel::spec;
use refmodel::ZNum;
use vengine::{op, oph, opn, Aux, Op};
use vengine::{n, on, ov, v, vf};

macro_rules! common {
    () => {
        vec![
            op!("overflowing_pow", 1, Aux::Exp, spec::overflowing_pow, |r, x| vf(r[0].overflowing_pow(x as u32))),
            op!("checked_pow", 1, Aux::Exp, spec::checked_pow, |r, x| ov(r[0].checked_pow(x as u32))),
            op!("wrapping_pow", 1, Aux::Exp, spec::wrapping_pow, |r, x| v(r[0].wrapping_pow(x as u32))),
            op!("saturating_pow", 1, Aux::Exp, spec::saturating_pow, |r, x| v(r[0].saturating_pow(x as u32))),
            oph!("strict_pow", 1, Aux::Exp, spec::strict_pow, |r, x| v(r[0].strict_pow(x as u32))),
            // unsuffixed pow: the value when representable (the debug panic / release wrap is C04's)
            opn!("pow", 1, Aux::Exp, spec::pow_representable, |r, x| v(r[0].pow(x as u32))),
            op!("checked_ilog", 2, Aux::None, spec::checked_ilog, |r, _x| on(r[0].checked_ilog(r[1]))),
            op!("checked_ilog2", 1, Aux::None, spec::checked_ilog2, |r, _x| on(r[0].checked_ilog2())),
            op!("checked_ilog10", 1, Aux::None, spec::checked_ilog10, |r, _x| on(r[0].checked_ilog10())),
            // unsuffixed logs: the value for positive self and base >= 2 (the panics are C04's)
            opn!("ilog", 2, Aux::None, spec::ilog, |r, _x| n(r[0].ilog(r[1]))),
            opn!("ilog2", 1, Aux::None, spec::ilog2, |r, _x| n(r[0].ilog2())),
            opn!("ilog10", 1, Aux::None, spec::ilog10, |r, _x| n(r[0].ilog10())),
        ]
    };
}

macro_rules! tables {
    ($fam:ident, $BUint:ident, $BInt:ident, $Digit:ty) => {
        pub mod $fam {
            use super::*;
            use bnum::{$BInt, $BUint};
            pub fn u<const N: usize, Z: ZNum>() -> Vec<Op<$BUint<N>, Z>> {
                common!()
            }
            pub fn i<const N: usize, Z: ZNum>() -> Vec<Op<$BInt<N>, Z>> {
                common!()
            }
        }
    };
}
crate::for_families!(tables);

pub mod c01;

//! C16: (a) same width, different digit types: identical observations for the C01/C02/C03/C05
//! (and, thorough, C06/C07/C08) tables; (b) widening commutes with the value-level operations;
//! (c) constants and aliases.
use bnum::cast::As;
use vcore::tables::{c01, c02, c03, c05, c06, c07, c08, c16};
use vcore::*;

macro_rules! same_width {
    ($run:expr, $z:ty, $cap:expr; $fa:ident $na:literal ~ $fb:ident $nb:literal) => {{
        let tier = $run.tier;
        let pu = plans::cross_plan::<$fa::U<$na>>(tier, $cap);
        let pi = plans::cross_plan::<$fa::I<$na>>(tier, $cap);
        $run.explore_diff(&c01::$fa::u::<$na, $z>(), &c01::$fb::u::<$nb, $z>(), &pu);
        $run.explore_diff(&c01::$fa::i::<$na, $z>(), &c01::$fb::i::<$nb, $z>(), &pi);
        $run.explore_diff(&c02::$fa::u::<$na, $z>(), &c02::$fb::u::<$nb, $z>(), &pu);
        $run.explore_diff(&c02::$fa::i::<$na, $z>(), &c02::$fb::i::<$nb, $z>(), &pi);
        $run.explore_diff(&c03::$fa::u::<$na, $z>(), &c03::$fb::u::<$nb, $z>(), &pu);
        $run.explore_diff(&c03::$fa::i::<$na, $z>(), &c03::$fb::i::<$nb, $z>(), &pi);
        $run.explore_diff(&c05::$fa::u::<$na, $z>(), &c05::$fb::u::<$nb, $z>(), &pu);
        $run.explore_diff(&c05::$fa::i::<$na, $z>(), &c05::$fb::i::<$nb, $z>(), &pi);
        $run.explore_diff(&c16::$fa::u::<$na, $z>(), &c16::$fb::u::<$nb, $z>(), &pu);
        $run.explore_diff(&c16::$fa::i::<$na, $z>(), &c16::$fb::i::<$nb, $z>(), &pi);
        if tier == Tier::Thorough {
            $run.explore_diff(&c06::$fa::u::<$na, $z>(), &c06::$fb::u::<$nb, $z>(), &plans::bits_plan::<$fa::U<$na>>(Tier::Quick));
            $run.explore_diff(&c06::$fa::i::<$na, $z>(), &c06::$fb::i::<$nb, $z>(), &plans::bits_plan::<$fa::I<$na>>(Tier::Quick));
            $run.explore_diff(&c07::$fa::u::<$na, $z>(), &c07::$fb::u::<$nb, $z>(), &pu);
            $run.explore_diff(&c07::$fa::i::<$na, $z>(), &c07::$fb::i::<$nb, $z>(), &pi);
            $run.explore_diff(&c08::$fa::u::<$na, $z>(), &c08::$fb::u::<$nb, $z>(), &pu);
            $run.explore_diff(&c08::$fa::i::<$na, $z>(), &c08::$fb::i::<$nb, $z>(), &pi);
        }
        // the As cast between the two representations agrees with the harness' byte repacking
        casts::cast_pair::<$fa::U<$na>, $fb::U<$nb>>($run);
        casts::cast_pair::<$fb::U<$nb>, $fa::U<$na>>($run);
        casts::cast_pair::<$fa::I<$na>, $fb::I<$nb>>($run);
        casts::cast_pair::<$fb::I<$nb>, $fa::I<$na>>($run);
    }};
}

macro_rules! widen {
    ($run:expr, $z:ty, $cap:expr; $fa:ident $na:literal => $fb:ident $nb:literal) => {{
        let tier = $run.tier;
        let pu = plans::cross_plan::<$fa::U<$na>>(tier, $cap);
        let pi = plans::cross_plan::<$fa::I<$na>>(tier, $cap);
        $run.explore_widen(&c16::$fa::u::<$na, $z>(), &c16::$fb::u::<$nb, $z>(), &pu, |a| (*a).as_::<$fb::U<$nb>>());
        $run.explore_widen(&c16::$fa::i::<$na, $z>(), &c16::$fb::i::<$nb, $z>(), &pi, |a| (*a).as_::<$fb::I<$nb>>());
    }};
}

macro_rules! consts {
    ($run:expr, $fam:ident, $n:literal, $z:ty) => {{
        consts::consts_check::<$fam::U<$n>>($run, $fam::DIGIT_BITS, $n);
        consts::consts_check::<$fam::I<$n>>($run, $fam::DIGIT_BITS, $n);
    }};
}

fn main() {
    vengine::on_worker_stack(real_main);
}

fn real_main() {
    let mut run = Run::from_args("C16", "c16");
    let r = &mut run;
    // (a) equal widths
    // (the pairs with several 64-bit digits first: a digit-type dependent hang is then met by the watchdog
    // before slower, terminating pairs can use up the wall-clock cap)
    same_width!(r, BigRef, 500; d32 6 ~ d64 3);
    same_width!(r, BigRef, 500; d8 24 ~ d64 3);
    same_width!(r, i128, 4000; d8 2 ~ d16 1);
    same_width!(r, BigRef, 700; d8 8 ~ d64 1);
    same_width!(r, BigRef, 700; d16 4 ~ d64 1);
    same_width!(r, BigRef, 700; d32 2 ~ d64 1);
    if r.tier == Tier::Thorough {
        same_width!(r, i128, 1500; d8 4 ~ d32 1);
        same_width!(r, i128, 1500; d16 2 ~ d32 1);
        same_width!(r, BigRef, 1500; d8 6 ~ d16 3);
        same_width!(r, BigRef, 1500; d8 12 ~ d32 3);
        same_width!(r, BigRef, 1500; d16 6 ~ d32 3);
        same_width!(r, BigRef, 1500; d8 16 ~ d64 2);
        same_width!(r, BigRef, 1500; d16 8 ~ d64 2);
        same_width!(r, BigRef, 1500; d32 4 ~ d64 2);
        same_width!(r, BigRef, 1500; d16 12 ~ d64 3);
        same_width!(r, BigRef, 800; d8 40 ~ d64 5);
        same_width!(r, BigRef, 800; d16 20 ~ d64 5);
        same_width!(r, BigRef, 800; d32 10 ~ d64 5);
    }
    // the widest configurations (8192 bits): u8 digits against u64 digits, addition / subtraction and
    // multiplication tables on a small dense / sparse plan
    {
        let pu = plans::hugeify(plans::cross_plan::<d8::U<1024>>(Tier::Quick, 24), 24, 24);
        let pi = plans::hugeify(plans::cross_plan::<d8::I<1024>>(Tier::Quick, 24), 24, 24);
        r.explore_diff(&c01::d8::u::<1024, BigRef>(), &c01::d64::u::<128, BigRef>(), &pu);
        r.explore_diff(&c01::d8::i::<1024, BigRef>(), &c01::d64::i::<128, BigRef>(), &pi);
        r.explore_diff(&c02::d8::u::<1024, BigRef>(), &c02::d64::u::<128, BigRef>(), &pu);
        r.explore_diff(&c02::d8::i::<1024, BigRef>(), &c02::d64::i::<128, BigRef>(), &pi);
        let pu = plans::hugeify(plans::cross_plan::<d16::U<512>>(Tier::Quick, 24), 24, 24);
        r.explore_diff(&c02::d16::u::<512, BigRef>(), &c02::d32::u::<256, BigRef>(), &pu);
    }
    // (b) widening
    widen!(r, BigRef, 4000; d8 1 => d8 2);
    widen!(r, BigRef, 1200; d8 1 => d64 3);
    widen!(r, BigRef, 1200; d8 3 => d16 2);
    widen!(r, BigRef, 1200; d8 3 => d64 1);
    widen!(r, BigRef, 700; d16 3 => d32 2);
    widen!(r, BigRef, 700; d32 1 => d64 1);
    widen!(r, BigRef, 700; d64 1 => d64 2);
    widen!(r, BigRef, 500; d32 3 => d64 3);
    widen!(r, BigRef, 500; d64 3 => d8 40);
    if r.tier == Tier::Thorough {
        widen!(r, BigRef, 3000; d8 2 => d8 3);
        widen!(r, BigRef, 3000; d16 1 => d32 1);
        widen!(r, BigRef, 1500; d8 5 => d16 3);
        widen!(r, BigRef, 1500; d64 2 => d64 3);
        widen!(r, BigRef, 1500; d64 2 => d64 4);
        widen!(r, BigRef, 1000; d32 5 => d64 4);
        widen!(r, BigRef, 800; d64 4 => d64 8);
        widen!(r, BigRef, 500; d8 17 => d64 16);
    }
    // (c) constants for every configuration of the property's quantifier text
    vcore::core_configs!(consts, r);
    if r.tier == Tier::Quick {
        consts!(r, d8, 5, BigRef);
        consts!(r, d16, 12, BigRef);
        consts!(r, d64, 128, BigRef);
    }
    consts::aliases_check(r);
    std::process::exit(run.finish());
}

use vcore::tables::c06 as t;
use vcore::*;

macro_rules! cfg {
    ($run:expr, $fam:ident, $n:literal, $z:ty) => {{
        let tier = $run.tier;
        $run.explore(&t::$fam::u::<$n, $z>(), &plans::bits_plan::<$fam::U<$n>>(tier));
        $run.explore(&t::$fam::i::<$n, $z>(), &plans::bits_plan::<$fam::I<$n>>(tier));
    }};
}

macro_rules! cfg_huge {
    ($run:expr, $fam:ident, $n:literal, $z:ty) => {{
        // the widest configurations of the quantifier (8192 bits): dense and sparse values, small plan
        $run.explore(&t::$fam::u::<$n, $z>(), &plans::hugeify(plans::bits_plan::<$fam::U<$n>>(Tier::Quick), usize::MAX, usize::MAX));
        $run.explore(&t::$fam::i::<$n, $z>(), &plans::hugeify(plans::bits_plan::<$fam::I<$n>>(Tier::Quick), usize::MAX, usize::MAX));
    }};
}

fn main() {
    vengine::on_worker_stack(real_main);
}

fn real_main() {
    let mut run = Run::from_args("C06", "c06");
    vcore::core_configs!(cfg, run);
    vcore::huge_configs!(cfg_huge, run);
    std::process::exit(run.finish());
}

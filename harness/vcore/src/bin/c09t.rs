//! C09 thorough binary: full type matrix.
use vcore::tables::c09 as t;
use vcore::casts::cast_pair;
use vcore::*;

macro_rules! cfg {
    ($run:expr, $fam:ident, $n:literal, $z:ty) => {{
        let tier = $run.tier;
        $run.explore(&t::$fam::u::<$n, $z>(), &plans::unary::<$fam::U<$n>>(tier));
        $run.explore(&t::$fam::i::<$n, $z>(), &plans::unary::<$fam::I<$n>>(tier));
    }};
}
macro_rules! bnum_pairs {
    ($run:expr; $($t:ty),*) => {
        vcore::all_pairs!(cast_pair, $run; $($t),*);
        vcore::to_prims!(cast_pair, $run; $($t),*);
        vcore::from_prims!(cast_pair, $run; $($t),*);
        $( casts::cast_from_bool_char::<$t>($run); )*
    };
}

fn main() {
    vengine::on_worker_stack(real_main);
}

fn real_main() {
    let mut run = Run::from_args("C09", "c09t");
    vcore::core_configs!(cfg, run);
    vcore::thorough_types!(bnum_pairs, &mut run);
    std::process::exit(run.finish());
}

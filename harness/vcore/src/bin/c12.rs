use vcore::*;

macro_rules! cfg {
    ($run:expr, $fam:ident, $n:literal, $z:ty) => {{
        fmtcheck::fmt_check::<$fam::U<$n>>($run);
        fmtcheck::fmt_check::<$fam::I<$n>>($run);
    }};
}

fn main() {
    vengine::on_worker_stack(real_main);
}

fn real_main() {
    let mut run = Run::from_args("C12", "c12");
    if !run.in_replay() {
        match fmtcheck::wide_selfcheck() {
            Ok(n) => {
                run.extra.insert("wide_format_oracle_selfcheck_cases".into(), J::n(n));
            }
            Err(e) => {
                eprintln!("MACHINERY-ERROR: {}", e);
                std::process::exit(2);
            }
        }
    }
    vcore::core_configs!(cfg, &mut run);
    // wide types: digit counts of 64 and above (a threshold at which big-number libraries commonly
    // switch conversion algorithm)
    cfg!(&mut run, d8, 64, BigRef);
    // the widest configurations of the quantifier (8192 bits), small plan
    vcore::huge_configs!(cfg, &mut run);
    if run.tier == Tier::Thorough {
        cfg!(&mut run, d16, 64, BigRef);
        cfg!(&mut run, d32, 65, BigRef);
    }
    std::process::exit(run.finish());
}

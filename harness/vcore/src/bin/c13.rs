//! C13 quick binary: checked conversions over the quick type matrix.
use vcore::casts::{btry_pair, from_pair, try_pair};
use vcore::*;

macro_rules! bnum_pairs {
    ($run:expr; $($t:ty),*) => {
        vcore::all_pairs!(btry_pair, $run; $($t),*);
        vcore::to_prims!(try_pair, $run; $($t),*);
    };
}
macro_rules! into_unsigned {
    ($run:expr; $($t:ty),*) => {
        vcore::from_unsigned_prims!(from_pair, $run; $($t),*);
        vcore::from_unsigned_prims!(try_pair, $run; $($t),*);
        vcore::from_signed_prims!(try_pair, $run; $($t),*);
        $( casts::from_bool::<$t>($run); casts::from_char::<$t>($run); )*
    };
}
macro_rules! into_signed {
    ($run:expr; $($t:ty),*) => {
        vcore::from_unsigned_prims!(from_pair, $run; $($t),*);
        vcore::from_unsigned_prims!(try_pair, $run; $($t),*);
        vcore::from_signed_prims!(from_pair, $run; $($t),*);
        vcore::from_signed_prims!(try_pair, $run; $($t),*);
        $( casts::from_bool::<$t>($run); )*
    };
}
macro_rules! digits {
    ($run:expr, $fam:ident, $n:literal, $z:ty) => {
        vcore::digits_dispatch!($fam, $n, $run);
    };
}

fn main() {
    vengine::on_worker_stack(real_main);
}

fn real_main() {
    let mut run = Run::from_args("C13", "c13");
    run.known_fn = Some(casts::known_c13);
    vcore::quick_types!(bnum_pairs, &mut run);
    vcore::quick_unsigned!(into_unsigned, &mut run);
    vcore::quick_signed!(into_signed, &mut run);
    vcore::core_configs!(digits, &mut run);
    std::process::exit(run.finish());
}

//! C17 thorough binary: every core configuration.
use vcore::tables::c17 as t;
use vcore::*;

macro_rules! cfg {
    ($run:expr, $fam:ident, $n:literal, $z:ty) => {{
        let tier = $run.tier;
        $run.explore(&t::$fam::u::<$n, $z>(), &plans::ops_plan::<$fam::U<$n>>(tier));
        $run.explore(&t::$fam::i::<$n, $z>(), &plans::ops_plan::<$fam::I<$n>>(tier));
    }};
}

fn main() {
    vengine::on_worker_stack(real_main);
}

fn real_main() {
    let mut run = Run::from_args("C17", "c17t");
    vcore::core_configs!(cfg, &mut run);
    std::process::exit(run.finish());
}

use vcore::*;

macro_rules! cfg {
    ($run:expr, $fam:ident, $n:literal, $z:ty) => {{
        strings::radix_out_check::<$fam::U<$n>>($run);
        strings::radix_out_check::<$fam::I<$n>>($run);
    }};
}

fn main() {
    vengine::on_worker_stack(real_main);
}

fn real_main() {
    let mut run = Run::from_args("C11", "c11");
    vcore::core_configs!(cfg, &mut run);
    // the widest configurations of the quantifier (8192 bits), small plan
    vcore::huge_configs!(cfg, &mut run);
    std::process::exit(run.finish());
}

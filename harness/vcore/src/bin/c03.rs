use vcore::tables::c03 as t;
use vcore::*;

macro_rules! cfg {
    ($run:expr, $fam:ident, $n:literal, $z:ty) => {{
        let tier = $run.tier;
        $run.explore(&t::$fam::u::<$n, $z>(), &plans::arith::<$fam::U<$n>>(tier));
        $run.explore(&t::$fam::i::<$n, $z>(), &plans::arith::<$fam::I<$n>>(tier));
        // product-landmark digits (factor pairs of 2^w - 1 and 2^w + 1, modular inverses)
        if let Some(p) = plans::landmark_plan::<$fam::U<$n>>(tier) {
            $run.explore(&t::$fam::u::<$n, $z>(), &p);
        }
        if let Some(p) = plans::landmark_plan::<$fam::I<$n>>(tier) {
            $run.explore(&t::$fam::i::<$n, $z>(), &p);
        }
        // closure pass (non-initial states derived by the model): light in the quick tier
        if !$run.in_replay() {
            if let Some(p) = plans::closure_plan(&t::$fam::u::<$n, $z>(), tier) {
                $run.explore(&t::$fam::u::<$n, $z>(), &p);
            }
            if let Some(p) = plans::closure_plan(&t::$fam::i::<$n, $z>(), tier) {
                $run.explore(&t::$fam::i::<$n, $z>(), &p);
            }
        }
    }};
}

macro_rules! cfg_huge {
    ($run:expr, $fam:ident, $n:literal, $z:ty) => {{
        // the widest configurations of the quantifier (8192 bits): dense and sparse values, small plan
        $run.explore(&t::$fam::u::<$n, $z>(), &plans::hugeify(plans::arith::<$fam::U<$n>>(Tier::Quick), 24, 10));
        $run.explore(&t::$fam::i::<$n, $z>(), &plans::hugeify(plans::arith::<$fam::I<$n>>(Tier::Quick), 24, 10));
    }};
}

fn main() {
    vengine::on_worker_stack(real_main);
}

fn real_main() {
    let mut run = Run::from_args("C03", "c03");
    vcore::core_configs!(cfg, run);
    cfg_huge!(run, d8, 1024, BigRef);
    cfg_huge!(run, d64, 128, BigRef);
    if run.tier == Tier::Quick && (run.in_replay() || run.wants("BUintD8<3>")) {
        // mini Knuth window (quick): (u2, u1) all 2^16 x u0 = ff against divisors v1 (all 256) x v0 in
        // an 8-value alphabet: every value of the two leading dividend digits and of the leading divisor digit
        let mut ops = t::d8::u::<3, i128>();
        ops.retain(|o| o.name == "checked_div" || o.name == "checked_rem");
        let mut a: Vec<Vec<u8>> = Vec::with_capacity(2 << 16);
        for hi in 0..(1u32 << 16) {
            for u0 in [0xffu8] {
                a.push(vec![u0, hi as u8, (hi >> 8) as u8]);
            }
        }
        let mut b: Vec<Vec<u8>> = Vec::new();
        for v1 in 0..=255u8 {
            for v0 in [0x00u8, 0x01, 0x7f, 0x80, 0xff, 0x3c, 0x9b, 0xe1] {
                b.push(vec![v0, v1, 0]);
            }
        }
        let plan: Plan<d8::U<3>> = Plan::new("MINI KNUTH WINDOW: (u2,u1) all 2^16 x u0 = ff / (v1 all 256 x v0 in 8 values)", &a, &b, &[]);
        run.explore(&ops, &plan);
    }
    if run.tier == Tier::Thorough && (run.in_replay() || run.wants("BUintD8<3>")) {
        // Knuth window sweep: the complete (m = 1, n = 2) state space of the quotient-digit estimate over
        // u8 digits: dividends u2 u1 u0 with (u2, u1) ranging over all 2^16 values and u0 in {00, 80, ff},
        // against all 2^16 divisors (one- and two-digit)
        let mut ops = t::d8::u::<3, i128>();
        ops.retain(|o| o.name == "checked_div" || o.name == "checked_rem");
        let mut a: Vec<Vec<u8>> = Vec::with_capacity(3 << 16);
        for hi in 0..(1u32 << 16) {
            for u0 in [0x00u8, 0x80, 0xff] {
                a.push(vec![u0, hi as u8, (hi >> 8) as u8]);
            }
        }
        let b: Vec<Vec<u8>> = (0..(1u32 << 16)).map(|v| vec![v as u8, (v >> 8) as u8, 0]).collect();
        let plan: Plan<d8::U<3>> = Plan::new("KNUTH WINDOW: (u2,u1) all 2^16 x u0 in {00,80,ff} / all 2^16 divisors", &a, &b, &[]);
        run.explore(&ops, &plan);
    }
    std::process::exit(run.finish());
}

use vcore::tables::c08 as t;
use vcore::*;

macro_rules! cfg {
    ($run:expr, $fam:ident, $n:literal, $z:ty) => {{
        let tier = $run.tier;
        $run.explore(&t::$fam::u::<$n, $z>(), &plans::pow_plan::<$fam::U<$n>>(tier));
        $run.explore(&t::$fam::i::<$n, $z>(), &plans::pow_plan::<$fam::I<$n>>(tier));
    }};
}

macro_rules! cfg_huge {
    ($run:expr, $fam:ident, $n:literal, $z:ty) => {{
        // the widest configurations of the quantifier (8192 bits), small plan
        $run.explore(&t::$fam::u::<$n, $z>(), &plans::pow_plan_huge::<$fam::U<$n>>());
        $run.explore(&t::$fam::i::<$n, $z>(), &plans::pow_plan_huge::<$fam::I<$n>>());
    }};
}

fn main() {
    vengine::on_worker_stack(real_main);
}

fn real_main() {
    let mut run = Run::from_args("C08", "c08");
    vcore::core_configs!(cfg, run);
    vcore::huge_configs!(cfg_huge, run);
    // logarithms on very wide types (estimates from the bit length go wrong only far above 1024 bits)
    {
        let stride = if run.tier == Tier::Thorough { 1 } else { 16 };
        let mut ops = t::d64::u::<64, BigRef>();
        ops.retain(|o| o.name.contains("ilog"));
        run.explore(&ops, &plans::wide_log_plan::<d64::U<64>>(stride));
        let mut ops = t::d64::i::<64, BigRef>();
        ops.retain(|o| o.name.contains("ilog"));
        run.explore(&ops, &plans::wide_log_plan::<d64::I<64>>(stride));
        let mut ops = t::d16::u::<200, BigRef>();
        ops.retain(|o| o.name.contains("ilog"));
        run.explore(&ops, &plans::wide_log_plan::<d16::U<200>>(stride * 2));
    }
    std::process::exit(run.finish());
}

use vcore::tables::c02 as t;
use vcore::*;

macro_rules! cfg {
    ($run:expr, $fam:ident, $n:literal, $z:ty) => {{
        let tier = $run.tier;
        $run.explore(&t::$fam::u::<$n, $z>(), &plans::arith::<$fam::U<$n>>(tier));
        $run.explore(&t::$fam::i::<$n, $z>(), &plans::arith::<$fam::I<$n>>(tier));
        // product-landmark digits (factor pairs of 2^w - 1 and 2^w + 1, modular inverses)
        if let Some(p) = plans::landmark_plan::<$fam::U<$n>>(tier) {
            $run.explore(&t::$fam::u::<$n, $z>(), &p);
        }
        if let Some(p) = plans::landmark_plan::<$fam::I<$n>>(tier) {
            $run.explore(&t::$fam::i::<$n, $z>(), &p);
        }
        // closure pass (non-initial states derived by the model): light in the quick tier
        if !$run.in_replay() {
            if let Some(p) = plans::closure_plan(&t::$fam::u::<$n, $z>(), tier) {
                $run.explore(&t::$fam::u::<$n, $z>(), &p);
            }
            if let Some(p) = plans::closure_plan(&t::$fam::i::<$n, $z>(), tier) {
                $run.explore(&t::$fam::i::<$n, $z>(), &p);
            }
        }
    }};
}

macro_rules! cfg_huge {
    ($run:expr, $fam:ident, $n:literal, $z:ty) => {{
        // the widest configurations of the quantifier (8192 bits): dense and sparse values, small plan
        $run.explore(&t::$fam::u::<$n, $z>(), &plans::hugeify(plans::arith::<$fam::U<$n>>(Tier::Quick), usize::MAX, 16));
        $run.explore(&t::$fam::i::<$n, $z>(), &plans::hugeify(plans::arith::<$fam::I<$n>>(Tier::Quick), usize::MAX, 16));
    }};
}

fn main() {
    vengine::on_worker_stack(real_main);
}

fn real_main() {
    let mut run = Run::from_args("C02", "c02");
    vcore::core_configs!(cfg, run);
    vcore::huge_configs!(cfg_huge, run);
    std::process::exit(run.finish());
}

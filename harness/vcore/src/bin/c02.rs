use vcore::tables::c02 as t;
use vcore::*;

macro_rules! cfg {
    ($run:expr, $fam:ident, $n:literal, $z:ty) => {{
        let tier = $run.tier;
        $run.explore(&t::$fam::u::<$n, $z>(), &plans::arith::<$fam::U<$n>>(tier));
        $run.explore(&t::$fam::i::<$n, $z>(), &plans::arith::<$fam::I<$n>>(tier));
        // closure pass (non-initial states derived by the model): light in the quick tier
        if !$run.in_replay() {
            if let Some(p) = plans::closure_plan(&t::$fam::u::<$n, $z>(), tier) {
                $run.explore(&t::$fam::u::<$n, $z>(), &p);
            }
            if let Some(p) = plans::closure_plan(&t::$fam::i::<$n, $z>(), tier) {
                $run.explore(&t::$fam::i::<$n, $z>(), &p);
            }
        }
    }};
}

fn main() {
    let mut run = Run::from_args("C02", "c02");
    vcore::core_configs!(cfg, run);
    std::process::exit(run.finish());
}

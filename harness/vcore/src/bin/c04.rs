use vcore::tables::c04 as t;
use vcore::*;

macro_rules! cfg {
    ($run:expr, $fam:ident, $n:literal, $z:ty) => {{
        let tier = $run.tier;
        $run.explore(&t::$fam::u::<$n, $z>(), &plans::panic_plan::<$fam::U<$n>>(tier));
        $run.explore(&t::$fam::i::<$n, $z>(), &plans::panic_plan::<$fam::I<$n>>(tier));
    }};
}

fn main() {
    let mut run = Run::from_args("C04", "c04");
    vcore::core_configs!(cfg, run);
    std::process::exit(run.finish());
}

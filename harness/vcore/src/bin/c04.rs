use vcore::tables::c04 as t;
use vcore::*;

macro_rules! cfg {
    ($run:expr, $fam:ident, $n:literal, $z:ty) => {{
        let tier = $run.tier;
        $run.explore(&t::$fam::u::<$n, $z>(), &plans::panic_plan::<$fam::U<$n>>(tier));
        $run.explore(&t::$fam::i::<$n, $z>(), &plans::panic_plan::<$fam::I<$n>>(tier));
    }};
}

macro_rules! cfg_huge {
    ($run:expr, $fam:ident, $n:literal, $z:ty) => {{
        // the widest configurations of the quantifier (8192 bits): dense and sparse values, small plan
        $run.explore(&t::$fam::u::<$n, $z>(), &plans::hugeify(plans::panic_plan::<$fam::U<$n>>(Tier::Quick), 20, 8));
        $run.explore(&t::$fam::i::<$n, $z>(), &plans::hugeify(plans::panic_plan::<$fam::I<$n>>(Tier::Quick), 20, 8));
    }};
}

fn main() {
    vengine::on_worker_stack(real_main);
}

fn real_main() {
    let mut run = Run::from_args("C04", "c04");
    vcore::core_configs!(cfg, run);
    cfg_huge!(run, d8, 1024, BigRef);
    cfg_huge!(run, d64, 128, BigRef);
    std::process::exit(run.finish());
}

use vcore::*;

macro_rules! cfg {
    ($run:expr, $fam:ident, $n:literal, $z:ty) => {{
        floats::f2i_check::<$fam::U<$n>>($run);
        floats::f2i_check::<$fam::I<$n>>($run);
        floats::i2f_check::<$fam::U<$n>>($run);
        floats::i2f_check::<$fam::I<$n>>($run);
    }};
}

fn main() {
    vengine::on_worker_stack(real_main);
}

fn real_main() {
    let mut run = Run::from_args("C14", "c14");
    vcore::core_configs!(cfg, &mut run);
    if run.tier == Tier::Quick {
        // widths beyond the largest finite f32 (128 bits) and f64 (1024 bits) also in the quick tier
        cfg!(&mut run, d64, 16, BigRef);
        cfg!(&mut run, d64, 17, BigRef);
    } else {
        cfg!(&mut run, d64, 17, BigRef);
    }
    std::process::exit(run.finish());
}

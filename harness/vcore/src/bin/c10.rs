use vcore::*;

macro_rules! cfg {
    ($run:expr, $fam:ident, $n:literal, $z:ty) => {{
        strings::parse_check::<$fam::U<$n>>($run);
        strings::parse_check::<$fam::I<$n>>($run);
    }};
}

fn main() {
    vengine::on_worker_stack(real_main);
}

fn real_main() {
    let mut run = Run::from_args("C10", "c10");
    if run.tier == Tier::Thorough {
        vcore::core_configs!(cfg, &mut run);
    } else {
        // quick: every digit type with one digit, a multi-digit width and a wide type
        cfg!(&mut run, d8, 1, i128);
        cfg!(&mut run, d8, 2, i128);
        cfg!(&mut run, d8, 3, i128);
        cfg!(&mut run, d8, 17, BigRef);
        cfg!(&mut run, d16, 1, i128);
        cfg!(&mut run, d16, 3, BigRef);
        cfg!(&mut run, d32, 1, i128);
        cfg!(&mut run, d32, 3, BigRef);
        cfg!(&mut run, d64, 1, BigRef);
        cfg!(&mut run, d64, 2, BigRef);
        cfg!(&mut run, d64, 3, BigRef);
        cfg!(&mut run, d64, 5, BigRef);
    }
    // the widest configurations of the quantifier (8192 bits), small plan
    vcore::huge_configs!(cfg, &mut run);
    std::process::exit(run.finish());
}

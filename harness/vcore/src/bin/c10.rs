use vcore::*;

macro_rules! cfg {
    ($run:expr, $fam:ident, $n:literal, $z:ty) => {{
        strings::parse_check::<$fam::U<$n>>($run);
        strings::parse_check::<$fam::I<$n>>($run);
    }};
}

fn main() {
    let mut run = Run::from_args("C10", "c10");
    vcore::core_configs!(cfg, &mut run);
    std::process::exit(run.finish());
}

//! C17 quick binary: a subset of the configurations (the table has ~260 operations per type).
use vcore::tables::c17 as t;
use vcore::*;

macro_rules! cfg {
    ($run:expr, $fam:ident, $n:literal, $z:ty) => {{
        let tier = $run.tier;
        $run.explore(&t::$fam::u::<$n, $z>(), &plans::ops_plan::<$fam::U<$n>>(tier));
        $run.explore(&t::$fam::i::<$n, $z>(), &plans::ops_plan::<$fam::I<$n>>(tier));
    }};
}

fn main() {
    vengine::on_worker_stack(real_main);
}

fn real_main() {
    let mut run = Run::from_args("C17", "c17");
    let r = &mut run;
    cfg!(r, d8, 1, i128);
    cfg!(r, d8, 3, i128);
    cfg!(r, d16, 1, i128);
    cfg!(r, d32, 3, BigRef);
    cfg!(r, d64, 2, BigRef);
    // many-digit shapes: byte sizes that are not multiples of 8 / 16 (17, 22, 40 bytes), three 64-bit digits
    cfg!(r, d8, 17, BigRef);
    cfg!(r, d16, 11, BigRef);
    cfg!(r, d32, 10, BigRef);
    cfg!(r, d64, 3, BigRef);
    std::process::exit(run.finish());
}

//! C17 quick binary: a subset of the configurations (the table has ~260 operations per type).
use vcore::tables::c17 as t;
use vcore::*;

macro_rules! cfg {
    ($run:expr, $fam:ident, $n:literal, $z:ty) => {{
        let tier = $run.tier;
        $run.explore(&t::$fam::u::<$n, $z>(), &plans::ops_plan::<$fam::U<$n>>(tier));
        $run.explore(&t::$fam::i::<$n, $z>(), &plans::ops_plan::<$fam::I<$n>>(tier));
    }};
}

fn main() {
    let mut run = Run::from_args("C17", "c17");
    let r = &mut run;
    cfg!(r, d8, 1, i128);
    cfg!(r, d8, 3, i128);
    cfg!(r, d16, 1, i128);
    cfg!(r, d32, 3, BigRef);
    cfg!(r, d64, 2, BigRef);
    std::process::exit(run.finish());
}

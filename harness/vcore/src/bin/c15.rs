use vcore::tables::c15 as t;
use vcore::*;

macro_rules! cfg {
    ($run:expr, $fam:ident, $n:literal, $z:ty) => {{
        let tier = $run.tier;
        $run.explore(&t::$fam::u::<$n, $z>(), &plans::unary::<$fam::U<$n>>(tier));
        $run.explore(&t::$fam::i::<$n, $z>(), &plans::unary::<$fam::I<$n>>(tier));
        endian::slice_check::<$fam::U<$n>>($run);
        endian::slice_check::<$fam::I<$n>>($run);
    }};
}

fn main() {
    vengine::on_worker_stack(real_main);
}

fn real_main() {
    let mut run = Run::from_args("C15", "c15");
    vcore::core_configs!(cfg, &mut run);
    std::process::exit(run.finish());
}

use vcore::tables::c05 as t;
use vcore::*;

macro_rules! cfg {
    ($run:expr, $fam:ident, $n:literal, $z:ty) => {{
        let tier = $run.tier;
        $run.explore(&t::$fam::u::<$n, $z>(), &plans::unary::<$fam::U<$n>>(tier));
        $run.explore(&t::$fam::i::<$n, $z>(), &plans::unary::<$fam::I<$n>>(tier));
    }};
}

fn main() {
    let mut run = Run::from_args("C05", "c05");
    vcore::core_configs!(cfg, run);
    // digit counts with odd factors and several divisors (rotation by whole digits permutes the digit
    // array in gcd(d, N) cycles)
    // (the thorough list of core_configs contains these and more)
    if run.tier == Tier::Quick {
        cfg!(run, d8, 6, BigRef);
        cfg!(run, d32, 6, BigRef);
    } else {
        cfg!(run, d64, 12, BigRef);
    }
    std::process::exit(run.finish());
}

use vcore::tables::c05 as t;
use vcore::*;

macro_rules! cfg {
    ($run:expr, $fam:ident, $n:literal, $z:ty) => {{
        let tier = $run.tier;
        $run.explore(&t::$fam::u::<$n, $z>(), &plans::unary::<$fam::U<$n>>(tier));
        $run.explore(&t::$fam::i::<$n, $z>(), &plans::unary::<$fam::I<$n>>(tier));
    }};
}

fn main() {
    let mut run = Run::from_args("C05", "c05");
    vcore::core_configs!(cfg, run);
    std::process::exit(run.finish());
}

use vcore::tables::c05 as t;
use vcore::*;

macro_rules! cfg {
    ($run:expr, $fam:ident, $n:literal, $z:ty) => {{
        let tier = $run.tier;
        $run.explore(&t::$fam::u::<$n, $z>(), &plans::unary::<$fam::U<$n>>(tier));
        $run.explore(&t::$fam::i::<$n, $z>(), &plans::unary::<$fam::I<$n>>(tier));
    }};
}

fn main() {
    let mut run = Run::from_args("C05", "c05");
    vcore::core_configs!(cfg, run);
    // digit counts with odd factors and several divisors (rotation by whole digits permutes the digit
    // array in gcd(d, N) cycles)
    cfg!(run, d8, 6, BigRef);
    cfg!(run, d32, 6, BigRef);
    if run.tier == Tier::Thorough {
        cfg!(run, d8, 9, BigRef);
        cfg!(run, d8, 10, BigRef);
        cfg!(run, d16, 6, BigRef);
        cfg!(run, d64, 6, BigRef);
        cfg!(run, d64, 12, BigRef);
    }
    std::process::exit(run.finish());
}

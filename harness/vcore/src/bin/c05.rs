use vcore::tables::c05 as t;
use vcore::*;

macro_rules! cfg {
    ($run:expr, $fam:ident, $n:literal, $z:ty) => {{
        let tier = $run.tier;
        $run.explore(&t::$fam::u::<$n, $z>(), &plans::unary::<$fam::U<$n>>(tier));
        $run.explore(&t::$fam::i::<$n, $z>(), &plans::unary::<$fam::I<$n>>(tier));
    }};
}

macro_rules! cfg_huge {
    ($run:expr, $fam:ident, $n:literal, $z:ty) => {{
        // the widest configurations of the quantifier (8192 bits): dense and sparse values, small plan
        $run.explore(&t::$fam::u::<$n, $z>(), &plans::hugeify(plans::unary::<$fam::U<$n>>(Tier::Quick), usize::MAX, usize::MAX));
        $run.explore(&t::$fam::i::<$n, $z>(), &plans::hugeify(plans::unary::<$fam::I<$n>>(Tier::Quick), usize::MAX, usize::MAX));
    }};
}

fn main() {
    vengine::on_worker_stack(real_main);
}

fn real_main() {
    let mut run = Run::from_args("C05", "c05");
    vcore::core_configs!(cfg, run);
    vcore::huge_configs!(cfg_huge, run);
    // digit counts with odd factors and several divisors (rotation by whole digits permutes the digit
    // array in gcd(d, N) cycles)
    // (the thorough list of core_configs contains these and more)
    if run.tier == Tier::Quick {
        cfg!(run, d8, 6, BigRef);
        cfg!(run, d32, 6, BigRef);
    } else {
        cfg!(run, d64, 12, BigRef);
    }
    std::process::exit(run.finish());
}

//! Binding of the explorer to the real bnum types (default features), and the per-property
//! operation tables.

pub use refmodel::*;
pub use vengine::*;

pub mod casts;
pub mod consts;
pub mod fmt_table;
pub mod fmtcheck;
pub mod endian;
pub mod floats;
pub mod matrix;
pub mod plans;
pub mod strapi;
pub mod strings;
pub mod tables;

/// Invoke a macro once per digit family: $m!(module, BUintX, BIntX, digit type)
#[macro_export]
macro_rules! for_families {
    ($m:ident) => {
        $m!(d8, BUintD8, BIntD8, u8);
        $m!(d16, BUintD16, BIntD16, u16);
        $m!(d32, BUintD32, BIntD32, u32);
        $m!(d64, BUint, BInt, u64);
    };
}

/// The configuration lists of DESIGN.md section 4.1: invokes $m!(run, family, N, carrier) for
/// every configuration of the tier.
#[macro_export]
macro_rules! core_configs {
    ($m:ident, $run:expr) => {
        $m!($run, d8, 1, i128);
        $m!($run, d8, 2, i128);
        $m!($run, d8, 3, i128);
        $m!($run, d16, 1, i128);
        $m!($run, d16, 2, i128);
        $m!($run, d16, 3, BigRef);
        $m!($run, d32, 1, i128);
        $m!($run, d32, 2, BigRef);
        $m!($run, d32, 3, BigRef);
        $m!($run, d64, 1, BigRef);
        $m!($run, d64, 2, BigRef);
        $m!($run, d64, 3, BigRef);
        // N = 4: the first digit count with two quotient digits above a two-digit divisor
        $m!($run, d8, 4, i128);
        $m!($run, d64, 4, BigRef);
        // many digits (sparse boundary shapes): a width above 128 bits that is not a power of two with
        // the narrowest digit, and a 320-bit type with the widest
        $m!($run, d8, 17, BigRef);
        $m!($run, d64, 5, BigRef);
        // digit counts above 8 for the two middle digit types, with residues 3 (mod 4 and mod 8) and 2:
        // loops unrolled by 2 / 4 / 8 have a leftover of every size somewhere in the quick list
        $m!($run, d16, 11, BigRef);
        $m!($run, d32, 10, BigRef);
        if $run.tier == Tier::Thorough {
            $m!($run, d8, 5, BigRef);
            $m!($run, d8, 8, BigRef);
            $m!($run, d8, 32, BigRef);
            $m!($run, d16, 4, BigRef);
            $m!($run, d16, 5, BigRef);
            $m!($run, d16, 12, BigRef);
            $m!($run, d32, 4, BigRef);
            $m!($run, d32, 5, BigRef);
            $m!($run, d64, 8, BigRef);
            $m!($run, d64, 16, BigRef);
            $m!($run, d64, 64, BigRef);
            // digit-count sweep: every N up to 13 and 16 with the narrowest digit (loop unrolling by
            // 2 / 4 / 8, leftovers, gcd(N, shift) cycles), 6 and 7 with the others
            $m!($run, d8, 6, BigRef);
            $m!($run, d8, 7, BigRef);
            $m!($run, d8, 9, BigRef);
            $m!($run, d8, 10, BigRef);
            $m!($run, d8, 11, BigRef);
            $m!($run, d8, 12, BigRef);
            $m!($run, d8, 13, BigRef);
            $m!($run, d8, 16, BigRef);
            $m!($run, d16, 6, BigRef);
            $m!($run, d16, 7, BigRef);
            $m!($run, d32, 6, BigRef);
            $m!($run, d32, 7, BigRef);
            $m!($run, d64, 6, BigRef);
            $m!($run, d64, 7, BigRef);
        }
    };
}

/// The widest configurations of the properties' quantifier (8192 bits with each digit type): invokes
/// $m!(run, family, N, BigRef).  Their plans are small (sets::huge): a few dozen dense / sparse values.
#[macro_export]
macro_rules! huge_configs {
    ($m:ident, $run:expr) => {
        $m!($run, d8, 1024, BigRef);
        $m!($run, d16, 512, BigRef);
        $m!($run, d32, 256, BigRef);
        $m!($run, d64, 128, BigRef);
    };
}

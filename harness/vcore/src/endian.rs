//! C15: byte-slice decoding and endianness helpers.

use crate::strapi::StrApi;
use crate::strings::{bhex, unbhex};
use refmodel::sets::{self, Tier};
use refmodel::{BigRef, Expect, Obs, TypeInfo};
use vengine::{par_chunks, Local, Run};

type Z = BigRef;

/// the value a byte string denotes (big- or little-endian; two's complement with the sign taken
/// from the most significant byte for signed types); Some(v) iff representable
pub fn spec_slice(bytes: &[u8], be: bool, ti: TypeInfo) -> Expect<Z> {
    let mut le = bytes.to_vec();
    if be {
        le.reverse();
    }
    let v = BigRef::from_le_bytes(&le, ti.signed);
    Expect::Is(Obs::OV(if ti.fits(&v) { Some(v) } else { None }))
}

fn one<T: StrApi>(config: &str, bytes: &[u8], l: &mut Local) {
    let ti = T::ti();
    l.enter(config, "from_be_slice", || vec![bhex(bytes)], bytes.len() as u64);
    for (op, be) in [("from_be_slice", true), ("from_le_slice", false)] {
        let e = spec_slice(bytes, be, ti);
        let o = match std::panic::catch_unwind(std::panic::AssertUnwindSafe(|| {
            let r = if be { T::from_be_slice_(bytes) } else { T::from_le_slice_(bytes) };
            Obs::OV(r.map(|t| t.z::<Z>()))
        })) {
            Ok(o) => o,
            Err(_) => Obs::Panic,
        };
        l.check(config, op, || vec![bhex(bytes)], bytes.len() as u64, &e, &o);
    }
}

fn all_slices(alpha: &[u8], maxlen: usize) -> Vec<Vec<u8>> {
    let mut out: Vec<Vec<u8>> = vec![Vec::new()];
    let mut layer: Vec<Vec<u8>> = vec![Vec::new()];
    for _ in 0..maxlen {
        let mut next = Vec::with_capacity(layer.len() * alpha.len());
        for s in &layer {
            for a in alpha {
                let mut t = s.clone();
                t.push(*a);
                next.push(t);
            }
        }
        out.extend(next.iter().cloned());
        layer = next;
    }
    out
}

pub fn slice_check<T: StrApi>(run: &mut Run) {
    let config = T::type_name();
    for op in ["from_be_slice", "from_le_slice"] {
        if let Some((st, _)) = run.replay_target(&config, op) {
            let bytes = unbhex(&st[0]);
            let mut l = Local::default();
            one::<T>(&config, &bytes, &mut l);
            println!("replay {} {} {:02x?}", config, op, bytes);
            match l.viols.iter().find(|v| v.op == op) {
                Some(v) => println!("  expected: {}\n  observed: {}\nREPRODUCED", v.expected, v.observed),
                None => println!("NOT-REPRODUCED"),
            }
            return;
        }
    }
    if run.in_replay() || !run.wants(&config) {
        return;
    }
    if run.over_deadline() {
        run.cap_hit = true;
        return;
    }
    let nb = T::bytes();
    let db = (T::DIGIT_BITS / 8) as usize;
    let alpha = [0x00u8, 0x01, 0x7f, 0x80, 0xff];
    // (1) every slice over the byte alphabet up to a length bound
    let maxlen = if nb <= 3 { 2 * nb + 2 } else if run.tier == Tier::Thorough { 9 } else { 7 };
    let mut slices = all_slices(&alpha, maxlen);
    // (2) byte images of boundary values, truncated to every shorter length and extended by pad
    //     sequences of 1..=digit bytes + 2 bytes, in both byte orders
    let vals = if nb <= 2 { sets::full(T::BITS) } else { sets::structured(T::DIGIT_BITS, T::N, run.tier) };
    let vals: Vec<Vec<u8>> = if vals.len() > 1500 { vals.into_iter().take(1500).collect() } else { vals };
    let mut pads: Vec<Vec<u8>> = Vec::new(); // most significant byte first
    for p in 1..=(db + 2) {
        for b in [0x00u8, 0xff] {
            pads.push(vec![b; p]);
        }
        for top in [0x01u8, 0x80, 0xff, 0x7f] {
            let mut v = vec![0x00u8; p];
            v[0] = top;
            pads.push(v);
        }
        for top in [0xfeu8, 0x7f, 0x00] {
            let mut v = vec![0xffu8; p];
            v[0] = top;
            pads.push(v);
        }
        if p >= 2 {
            // a non-pad byte just above the image, pure padding above it
            for (fill, low) in [(0x00u8, 0x01u8), (0xff, 0xfe), (0x00, 0x80), (0xff, 0x7f)] {
                let mut v = vec![fill; p];
                v[p - 1] = low;
                pads.push(v);
            }
        }
    }
    let pads = sets::dedup(pads);
    for img in &vals {
        // img is little-endian
        let mut trunc_lens: Vec<usize> = vec![nb];
        if nb > 1 {
            trunc_lens.extend([nb - 1, nb / 2, 1]);
            if nb > db {
                trunc_lens.extend([nb - db, nb - db + 1, nb - db - 1, db, db + 1]);
            }
        }
        trunc_lens.sort();
        trunc_lens.dedup();
        for &tl in &trunc_lens {
            if tl == 0 || tl > nb {
                continue;
            }
            let le: Vec<u8> = img[..tl].to_vec();
            let mut be = le.clone();
            be.reverse();
            slices.push(le.clone());
            slices.push(be.clone());
            if tl == nb {
                for p in &pads {
                    // big-endian: pad in front; little-endian: pad (reversed) behind
                    let mut b = p.clone();
                    b.extend_from_slice(&be);
                    slices.push(b);
                    let mut l2 = le.clone();
                    let mut pr = p.clone();
                    pr.reverse();
                    l2.extend_from_slice(&pr);
                    slices.push(l2);
                }
            }
        }
    }
    let slices = sets::dedup(slices);
    let cfg = config.clone();
    let l = par_chunks(run.threads, slices.len(), |lo, hi, l| {
        for s in &slices[lo..hi] {
            one::<T>(&cfg, s, l);
        }
    });
    run.merge(&config, "all short slices over {00,01,7f,80,ff} + truncated / padded images of boundary values", "from_be_slice/from_le_slice", slices.len() as u64, l);
}

//! Engines for C09 (As / CastFrom) and C13 (checked conversions): every source value of a plan,
//! for every ordered (source type, target type) pair.

use bnum::cast::{As, CastFrom};
use bnum::BTryFrom;
use refmodel::sets::{self, Tier};
use refmodel::{BigRef, Expect, Obs, TypeInfo, ZNum};
use vengine::{hex, unhex, Local, Run, Subj};

type Z = BigRef;

fn big(v: i128) -> BigRef {
    BigRef::from_i128(v)
}

/// run-time description of a type (keeps the per-pair monomorphised code tiny)
#[derive(Clone)]
pub struct Desc {
    pub name: String,
    pub bits: u32,
    pub digit_bits: u32,
    pub n: usize,
    pub signed: bool,
    pub prim: bool,
}
pub fn desc<T: Subj>() -> Desc {
    let name = T::type_name();
    let prim = !name.starts_with('B');
    Desc { name, bits: T::BITS, digit_bits: T::DIGIT_BITS, n: T::N, signed: T::SIGNED, prim }
}

/// source values (byte images) for a source type when the target has `tbits` bits: FULL up to
/// 16 bits, boundary-structured beyond, plus 2^tbits, 2^(tbits-1) and their negations +-2 (the
/// target's MIN-1, MIN, MAX, MAX+1 for both signednesses) embedded in the source type
pub fn source_values(s: &Desc, tier: Tier, tbits: u32) -> Vec<Vec<u8>> {
    let bits = s.bits;
    if full_source(s, tier) {
        // the complete value space contains every directed value already
        return sets::full(bits);
    }
    let mut v: Vec<Vec<u8>> = sets::structured(s.digit_bits, s.n, tier);
    let nb = (bits / 8) as usize;
    let sti = TypeInfo { bits, signed: s.signed };
    let mut push = |x: BigRef| {
        if sti.fits(&x) {
            v.push(x.to_le_bytes_wrapped(nb));
        }
    };
    for tb in [tbits, tbits - 1] {
        let p = BigRef::pow2(tb as u64);
        for d in -2..=2i128 {
            push(p.add(&big(d)));
            push(p.neg().add(&big(d)));
        }
    }
    sets::dedup(v)
}

/// is the source type enumerated completely?  (16 bits; 24 bits in the thorough tier)
pub fn full_source(s: &Desc, tier: Tier) -> bool {
    s.bits <= 16 || (s.bits <= 24 && tier == Tier::Thorough)
}

pub type PairFn<'a> = &'a (dyn Fn(&[u8]) -> (Expect<Z>, Obs<Z>) + Sync);

fn guarded(f: PairFn, b: &[u8]) -> (Expect<Z>, Obs<Z>) {
    match std::panic::catch_unwind(std::panic::AssertUnwindSafe(|| f(b))) {
        Ok(x) => x,
        Err(_) => (Expect::NoPanic, Obs::Panic),
    }
}

/// generic driver: for every source value compute (expectation, observation) with `f`
pub fn drive_dyn(run: &mut Run, s: &Desc, t: &Desc, op: &str, f: PairFn) {
    let config = format!("{}->{}", s.name, t.name);
    if let Some((st, _)) = run.replay_target(&config, op) {
        let (e, o) = guarded(f, &unhex(&st[0]));
        println!("replay {} {} {}", config, op, st[0]);
        run.replay_verdict(&e, &o);
        return;
    }
    if run.in_replay() || !run.wants_prefix(&config) {
        return;
    }
    let cfg = config.clone();
    let (l, n) = if s.bits == 24 && full_source(s, run.tier) {
        // 2^24 values: enumerated numerically, never materialised
        let n = 1usize << 24;
        let l = vengine::par_chunks(run.threads, n, |lo, hi, l| {
            for v in lo..hi {
                let b = &(v as u32).to_le_bytes()[..3];
                l.enter(&cfg, op, || vec![hex(b)], 0);
                let (e, o) = guarded(f, b);
                l.check(&cfg, op, || vec![hex(b)], 0, &e, &o);
            }
        });
        (l, n)
    } else {
        let vals = source_values(s, run.tier, t.bits);
        let n = vals.len();
        let l = if n >= 8192 {
            vengine::par_chunks(run.threads, n, |lo, hi, l| {
                for b in &vals[lo..hi] {
                    l.enter(&cfg, op, || vec![hex(b)], 0);
                    let (e, o) = guarded(f, b);
                    l.check(&cfg, op, || vec![hex(b)], 0, &e, &o);
                }
            })
        } else {
            let mut l = Local::default();
            l.slot = vengine::crumbs::claim("custom", "custom");
            for b in &vals {
                l.enter(&config, op, || vec![hex(b)], 0);
                let (e, o) = guarded(f, b);
                l.check(&config, op, || vec![hex(b)], 0, &e, &o);
            }
            vengine::crumbs::release(l.slot);
            l.slot = None;
            l
        };
        (l, n)
    };
    run.merge(&config, "values", op, n as u64, l);
}

pub fn drive<S: Subj, T: Subj>(run: &mut Run, op: &str, f: impl Fn(S) -> (Expect<Z>, Obs<Z>) + Sync) {
    drive_dyn(run, &desc::<S>(), &desc::<T>(), op, &|b: &[u8]| f(S::from_le(b)));
}

/// C09: As / CastFrom  (value mod 2^BITS of the target)
pub fn cast_pair<S, T>(run: &mut Run)
where
    S: Subj + As,
    T: Subj + CastFrom<S>,
{
    let tti: TypeInfo = T::ti();
    drive::<S, T>(run, "as_", |s| {
        let e = Expect::Is(Obs::V(tti.wrap(&s.z::<Z>())));
        let t1: T = s.as_::<T>();
        let t2: T = T::cast_from(s);
        let o = if t1 == t2 { Obs::V(t1.z::<Z>()) } else { Obs::P(t1.z::<Z>(), t2.z::<Z>()) };
        (e, o)
    });
}

fn try_expect<T: Subj>(z: &Z) -> Expect<Z> {
    if T::ti().fits(z) {
        Expect::Is(Obs::R(Ok(z.clone())))
    } else {
        Expect::AnyErr
    }
}

/// C13: BTryFrom between bnum integers
pub fn btry_pair<S, T>(run: &mut Run)
where
    S: Subj,
    T: Subj + BTryFrom<S>,
{
    drive::<S, T>(run, "BTryFrom::try_from", |s| {
        let e = try_expect::<T>(&s.z::<Z>());
        let o = match <T as BTryFrom<S>>::try_from(s) {
            Ok(t) => Obs::R(Ok(t.z::<Z>())),
            Err(_) => Obs::R(Err(refmodel::E_OTHER)),
        };
        (e, o)
    });
}

/// C13: TryFrom<bnum> for a primitive, and TryFrom<primitive> for bnum (TryFrom is also what the
/// blanket impl over From provides)
pub fn try_pair<S, T>(run: &mut Run)
where
    S: Subj,
    T: Subj + TryFrom<S>,
{
    // primitive -> bnum conversions are in scope only for targets at least as wide as the source
    if S::type_name().len() <= 5 && T::type_name().len() > 5 && T::BITS < S::BITS {
        return;
    }
    drive::<S, T>(run, "TryFrom::try_from", |s| {
        let e = try_expect::<T>(&s.z::<Z>());
        let o = match <T as TryFrom<S>>::try_from(s) {
            Ok(t) => Obs::R(Ok(t.z::<Z>())),
            Err(_) => Obs::R(Err(refmodel::E_OTHER)),
        };
        (e, o)
    });
}

/// C13: From<primitive> for bnum (infallible: only called on pairs where every source value is
/// claimed representable by the impl's existence; a non-representable source is a violation)
pub fn from_pair<S, T>(run: &mut Run)
where
    S: Subj,
    T: Subj + From<S>,
{
    if S::type_name().len() <= 5 && T::type_name().len() > 5 && T::BITS < S::BITS {
        return;
    }
    drive::<S, T>(run, "From::from", |s| {
        let z = s.z::<Z>();
        let e = if T::ti().fits(&z) { Expect::Is(Obs::V(z)) } else { Expect::Is(Obs::S("<no representable result>".into())) };
        let o = Obs::V(T::from(s).z::<Z>());
        (e, o)
    });
}

/// char values: all of them in the thorough tier, boundaries in quick
pub fn chars(tier: Tier) -> Vec<char> {
    if tier == Tier::Thorough {
        (0..=0x10FFFFu32).filter_map(char::from_u32).collect()
    } else {
        let mut v: Vec<u32> = (0..=0x200).collect();
        for k in [7u32, 8, 11, 15, 16, 20] {
            let p = 1u32 << k;
            v.extend([p - 1, p, p + 1]);
        }
        v.extend([0xD7FF, 0xE000, 0xFFFF, 0x10000, 0x10FFFE, 0x10FFFF]);
        v.into_iter().filter_map(char::from_u32).collect()
    }
}

/// C09: bool and char sources
pub fn cast_from_bool_char<T>(run: &mut Run)
where
    T: Subj + CastFrom<bool> + CastFrom<char>,
{
    let config = format!("bool/char->{}", T::type_name());
    if run.in_replay() {
        if let Some((st, _)) = run.replay_target(&config, "cast_from_char") {
            let c = char::from_u32(st[0].parse().unwrap()).unwrap();
            let e: Expect<Z> = Expect::Is(Obs::V(T::ti().wrap(&big(c as u32 as i128))));
            let o = vengine::guard(|| Obs::V(T::cast_from(c).z::<Z>()));
            run.replay_verdict(&e, &o);
        }
        if let Some((st, _)) = run.replay_target(&config, "cast_from_bool") {
            let b = st[0] == "true";
            let e: Expect<Z> = Expect::Is(Obs::V(T::ti().wrap(&big(b as i128))));
            let o = vengine::guard(|| Obs::V(T::cast_from(b).z::<Z>()));
            run.replay_verdict(&e, &o);
        }
        return;
    }
    if !run.wants_prefix(&config) {
        return;
    }
    let mut l = Local::default();
    for b in [false, true] {
        let e: Expect<Z> = Expect::Is(Obs::V(T::ti().wrap(&big(b as i128))));
        let o = vengine::guard(|| Obs::V(T::cast_from(b).z::<Z>()));
        l.check(&config, "cast_from_bool", || vec![b.to_string()], 0, &e, &o);
    }
    run.merge(&config, "values", "cast_from_bool", 2, l);
    let cs = chars(run.tier);
    let mut l = Local::default();
    for c in &cs {
        let e: Expect<Z> = Expect::Is(Obs::V(T::ti().wrap(&big(*c as u32 as i128))));
        let o = vengine::guard(|| Obs::V(T::cast_from(*c).z::<Z>()));
        l.check(&config, "cast_from_char", || vec![(*c as u32).to_string()], 0, &e, &o);
    }
    run.merge(&config, "values", "cast_from_char", cs.len() as u64, l);
}

/// C13: from_digits / digits() / From<[digit; N]> / Into<[digit; N]> / from_digit expose the
/// little-endian digit array unchanged.  The numeric value is observed through an independent
/// channel: ((x >> (w*i)) & digit::MAX) converted with TryFrom to u128.
macro_rules! digits_engine {
    ($name:ident, $BUint:ident, $BInt:ident, $Digit:ty, $w:expr) => {
        pub fn $name<const N: usize>(run: &mut Run) {
            use bnum::{$BInt, $BUint};
            let config = <$BUint<N> as Subj>::type_name();
            let op = "digit_array_layout";
            let one_raw = |bytes: &[u8]| -> Obs<Z> {
                let db = $w / 8;
                let mut d = [0 as $Digit; N];
                for i in 0..N {
                    let mut x: $Digit = 0;
                    for j in 0..db {
                        x |= (bytes[i * db + j] as $Digit) << (8 * j);
                    }
                    d[i] = x;
                }
                let x = $BUint::<N>::from_digits(d);
                let mut ok = x.digits() == &d;
                ok &= $BUint::<N>::from(d) == x;
                let back: [$Digit; N] = x.into();
                ok &= back == d;
                let mask = $BUint::<N>::from_digit(<$Digit>::MAX);
                for i in 0..N {
                    let dig = (x >> (($w * i) as u32)) & mask;
                    ok &= u128::try_from(dig) == Ok(d[i] as u128);
                    ok &= $BUint::<N>::from_digit(d[i]) == dig;
                }
                // the signed type shares the digit array through from_bits / to_bits
                let s = $BInt::<N>::from_bits(x);
                ok &= s.to_bits().digits() == &d;
                Obs::B(ok)
            };
            let one = |bytes: &[u8]| -> (Expect<Z>, Obs<Z>) {
                (Expect::Is(Obs::B(true)), vengine::guard(|| one_raw(bytes)))
            };
            if let Some((st, _)) = run.replay_target(&config, op) {
                let (e, o) = one(&unhex(&st[0]));
                run.replay_verdict(&e, &o);
                return;
            }
            if run.in_replay() || !run.wants_prefix(&config) {
                return;
            }
            let bits = <$BUint<N> as Subj>::BITS;
            let vals = if bits <= 16 { sets::full(bits) } else { sets::structured($w, N, run.tier) };
            let mut l = Local::default();
            for b in &vals {
                let (e, o) = one(b);
                l.check(&config, op, || vec![hex(b)], 0, &e, &o);
            }
            run.merge(&config, "values", op, vals.len() as u64, l);
        }
    };
}
digits_engine!(digits_d8, BUintD8, BIntD8, u8, 8);
digits_engine!(digits_d16, BUintD16, BIntD16, u16, 16);
digits_engine!(digits_d32, BUintD32, BIntD32, u32, 32);
digits_engine!(digits_d64, BUint, BInt, u64, 64);

#[macro_export]
macro_rules! digits_dispatch {
    (d8, $n:literal, $run:expr) => { $crate::casts::digits_d8::<$n>($run) };
    (d16, $n:literal, $run:expr) => { $crate::casts::digits_d16::<$n>($run) };
    (d32, $n:literal, $run:expr) => { $crate::casts::digits_d32::<$n>($run) };
    (d64, $n:literal, $run:expr) => { $crate::casts::digits_d64::<$n>($run) };
}

/// C13: From<bool> / From<char>
pub fn from_bool<T: Subj + From<bool>>(run: &mut Run) {
    let config = format!("bool->{}", T::type_name());
    let op = "From::from";
    if let Some((st, _)) = run.replay_target(&config, op) {
        let b = st[0] == "true";
        let e: Expect<Z> = Expect::Is(Obs::V(big(b as i128)));
        run.replay_verdict(&e, &vengine::guard(|| Obs::V(T::from(b).z::<Z>())));
        return;
    }
    if run.in_replay() || !run.wants_prefix(&config) {
        return;
    }
    let mut l = Local::default();
    for b in [false, true] {
        let e: Expect<Z> = Expect::Is(Obs::V(big(b as i128)));
        l.check(&config, op, || vec![b.to_string()], 0, &e, &vengine::guard(|| Obs::V(T::from(b).z::<Z>())));
    }
    run.merge(&config, "values", op, 2, l);
}
pub fn from_char<T: Subj + From<char>>(run: &mut Run) {
    let config = format!("char->{}", T::type_name());
    let op = "From::from";
    // char is a 21-bit (stored as 32-bit) source: in scope for targets of at least 32 bits
    if T::BITS < 32 {
        return;
    }
    if let Some((st, _)) = run.replay_target(&config, op) {
        let c = char::from_u32(st[0].parse().unwrap()).unwrap();
        let e: Expect<Z> = Expect::Is(Obs::V(big(c as u32 as i128)));
        run.replay_verdict(&e, &vengine::guard(|| Obs::V(T::from(c).z::<Z>())));
        return;
    }
    if run.in_replay() || !run.wants_prefix(&config) {
        return;
    }
    let cs = chars(run.tier);
    let mut l = Local::default();
    for c in &cs {
        let e: Expect<Z> = Expect::Is(Obs::V(big(*c as u32 as i128)));
        l.check(&config, op, || vec![(*c as u32).to_string()], 0, &e, &vengine::guard(|| Obs::V(T::from(*c).z::<Z>())));
    }
    run.merge(&config, "values", op, cs.len() as u64, l);
}

fn bnum_bits(name: &str) -> Option<(bool, u32)> {
    // "BUintD8<3>" / "BInt<2>"
    let signed = name.starts_with("BInt");
    let rest = name.trim_start_matches("BUint").trim_start_matches("BInt");
    let (d, n) = rest.split_once('<')?;
    let n: u32 = n.trim_end_matches('>').parse().ok()?;
    let w = match d {
        "" => 64,
        "D32" => 32,
        "D16" => 16,
        "D8" => 8,
        _ => return None,
    };
    Some((signed, w * n))
}
fn prim_bits(name: &str) -> Option<(bool, u32)> {
    let signed = name.starts_with('i');
    let b = match &name[1..] {
        "8" => 8,
        "16" => 16,
        "32" => 32,
        "64" | "size" => 64,
        "128" => 128,
        _ => return None,
    };
    Some((signed, b))
}

/// Known finding F6 (see known_findings.json): From<uK> / TryFrom<uK> for a signed bnum integer of
/// exactly K bits reinterprets the bits, so a source >= 2^(K-1) comes out as source - 2^K.
/// The predicate holds for exactly that transition class and nothing else.
pub fn known_c13(v: &vengine::Violation) -> Option<&'static str> {
    if v.op != "From::from" && v.op != "TryFrom::try_from" {
        return None;
    }
    let (s, t) = v.config.split_once("->")?;
    let (ssigned, sbits) = prim_bits(s)?;
    let (tsigned, tbits) = bnum_bits(t)?;
    if ssigned || !tsigned || sbits != tbits {
        return None;
    }
    let bytes = unhex(&v.state[0]);
    let src = BigRef::from_le_bytes_unsigned(&bytes);
    if src < BigRef::pow2(sbits as u64 - 1) {
        return None;
    }
    let wrapped = src.sub(&BigRef::pow2(sbits as u64));
    let shown_from = format!("{}", wrapped);
    let shown_try = format!("Ok({})", wrapped);
    if v.observed == shown_from || v.observed == shown_try {
        Some("F6")
    } else {
        None
    }
}

//! Type lists for the pair matrices of C09 / C13.

/// $m!(run; type, type, ...) with the quick list of bnum types
#[macro_export]
macro_rules! quick_types {
    ($m:ident, $run:expr) => {
        $m!($run;
            // narrow: one digit and three digits of every digit type (8 ... 96 bits)
            bnum::BUintD8<1>, bnum::BIntD8<1>, bnum::BUintD8<3>, bnum::BIntD8<3>,
            bnum::BUintD16<1>, bnum::BIntD16<1>, bnum::BUintD16<3>, bnum::BIntD16<3>,
            bnum::BUintD32<1>, bnum::BIntD32<1>, bnum::BUintD32<3>, bnum::BIntD32<3>,
            bnum::BUint<1>, bnum::BInt<1>,
            // wide (above the 128-bit fast paths), digit counts that are not multiples of any digit-width
            // ratio, ordered so that every ordered pair of digit types has a strictly wider and a strictly
            // narrower target: 136 < 144 < 160 < 192 < 200 < 208 < 224 bits
            bnum::BUintD8<17>, bnum::BIntD8<17>, bnum::BUintD16<9>, bnum::BIntD16<9>, bnum::BUintD32<5>, bnum::BIntD32<5>,
            bnum::BUint<3>, bnum::BInt<3>,
            bnum::BUintD8<25>, bnum::BIntD8<25>, bnum::BUintD16<13>, bnum::BIntD16<13>, bnum::BUintD32<7>, bnum::BIntD32<7>);
    };
}
/// the thorough list (a superset)
#[macro_export]
macro_rules! thorough_types {
    ($m:ident, $run:expr) => {
        $m!($run;
            bnum::BUintD8<1>, bnum::BIntD8<1>, bnum::BUintD8<2>, bnum::BIntD8<2>, bnum::BUintD8<3>, bnum::BIntD8<3>,
            bnum::BUintD8<4>, bnum::BIntD8<4>, bnum::BUintD8<5>, bnum::BIntD8<5>, bnum::BUintD8<8>, bnum::BIntD8<8>,
            bnum::BUintD8<17>, bnum::BIntD8<17>, bnum::BUintD8<25>, bnum::BIntD8<25>, bnum::BUintD8<41>, bnum::BIntD8<41>,
            bnum::BUintD16<1>, bnum::BIntD16<1>, bnum::BUintD16<2>, bnum::BIntD16<2>, bnum::BUintD16<3>, bnum::BIntD16<3>,
            bnum::BUintD16<4>, bnum::BIntD16<4>, bnum::BUintD16<5>, bnum::BIntD16<5>, bnum::BUintD16<21>, bnum::BIntD16<21>,
            bnum::BUintD32<1>, bnum::BIntD32<1>, bnum::BUintD32<2>, bnum::BIntD32<2>, bnum::BUintD32<3>, bnum::BIntD32<3>,
            bnum::BUintD32<5>, bnum::BIntD32<5>, bnum::BUintD32<11>, bnum::BIntD32<11>,
            bnum::BUint<1>, bnum::BInt<1>, bnum::BUint<2>, bnum::BInt<2>, bnum::BUint<3>, bnum::BInt<3>,
            bnum::BUint<4>, bnum::BInt<4>, bnum::BUint<5>, bnum::BInt<5>);
    };
}
/// all ordered pairs: all_pairs!(f, run; types...) calls f::<S, T>(run) for every S, T in the list
#[macro_export]
macro_rules! all_pairs {
    ($f:ident, $run:expr; $($t:ty),*) => { $crate::all_pairs!(@outer $f, $run; [$($t),*]; $($t),*) };
    (@outer $f:ident, $run:expr; $all:tt; $($s:ty),*) => { $( $crate::all_pairs!(@inner $f, $run; $s; $all); )* };
    (@inner $f:ident, $run:expr; $s:ty; [$($t:ty),*]) => { $( $f::<$s, $t>($run); )* };
}
/// every bnum type of a list against every primitive integer, in one direction:
/// to_prims!(f, run; types...) calls f::<bnum, prim>; from_prims!(..) calls f::<prim, bnum>
#[macro_export]
macro_rules! to_prims {
    ($f:ident, $run:expr; $($s:ty),*) => { $(
        $f::<$s, u8>($run); $f::<$s, u16>($run); $f::<$s, u32>($run); $f::<$s, u64>($run); $f::<$s, u128>($run); $f::<$s, usize>($run);
        $f::<$s, i8>($run); $f::<$s, i16>($run); $f::<$s, i32>($run); $f::<$s, i64>($run); $f::<$s, i128>($run); $f::<$s, isize>($run);
    )* };
}
#[macro_export]
macro_rules! from_prims {
    ($f:ident, $run:expr; $($t:ty),*) => { $(
        $f::<u8, $t>($run); $f::<u16, $t>($run); $f::<u32, $t>($run); $f::<u64, $t>($run); $f::<u128, $t>($run); $f::<usize, $t>($run);
        $f::<i8, $t>($run); $f::<i16, $t>($run); $f::<i32, $t>($run); $f::<i64, $t>($run); $f::<i128, $t>($run); $f::<isize, $t>($run);
    )* };
}

/// f::<unsigned primitive, T> / f::<signed primitive, T> for every T
#[macro_export]
macro_rules! from_unsigned_prims {
    ($f:ident, $run:expr; $($t:ty),*) => { $(
        $f::<u8, $t>($run); $f::<u16, $t>($run); $f::<u32, $t>($run); $f::<u64, $t>($run); $f::<u128, $t>($run); $f::<usize, $t>($run);
    )* };
}
#[macro_export]
macro_rules! from_signed_prims {
    ($f:ident, $run:expr; $($t:ty),*) => { $(
        $f::<i8, $t>($run); $f::<i16, $t>($run); $f::<i32, $t>($run); $f::<i64, $t>($run); $f::<i128, $t>($run); $f::<isize, $t>($run);
    )* };
}
/// the unsigned / signed halves of the type lists
#[macro_export]
macro_rules! quick_unsigned { ($m:ident, $run:expr) => { $m!($run; bnum::BUintD8<1>, bnum::BUintD8<3>, bnum::BUintD8<25>, bnum::BUintD16<1>, bnum::BUintD16<3>, bnum::BUintD32<1>, bnum::BUintD32<3>, bnum::BUint<1>, bnum::BUint<2>, bnum::BUint<3>); }; }
#[macro_export]
macro_rules! quick_signed { ($m:ident, $run:expr) => { $m!($run; bnum::BIntD8<1>, bnum::BIntD8<3>, bnum::BIntD8<25>, bnum::BIntD16<1>, bnum::BIntD16<3>, bnum::BIntD32<1>, bnum::BIntD32<3>, bnum::BInt<1>, bnum::BInt<2>, bnum::BInt<3>); }; }
#[macro_export]
macro_rules! thorough_unsigned { ($m:ident, $run:expr) => { $m!($run; bnum::BUintD8<1>, bnum::BUintD8<2>, bnum::BUintD8<3>, bnum::BUintD8<4>, bnum::BUintD8<5>, bnum::BUintD8<8>, bnum::BUintD8<16>, bnum::BUintD8<17>,
    bnum::BUintD16<1>, bnum::BUintD16<2>, bnum::BUintD16<3>, bnum::BUintD16<4>, bnum::BUintD16<5>, bnum::BUintD16<8>, bnum::BUintD32<1>, bnum::BUintD32<2>, bnum::BUintD32<3>, bnum::BUintD32<4>, bnum::BUintD32<5>,
    bnum::BUint<1>, bnum::BUint<2>, bnum::BUint<3>, bnum::BUint<4>, bnum::BUint<5>); }; }
#[macro_export]
macro_rules! thorough_signed { ($m:ident, $run:expr) => { $m!($run; bnum::BIntD8<1>, bnum::BIntD8<2>, bnum::BIntD8<3>, bnum::BIntD8<4>, bnum::BIntD8<5>, bnum::BIntD8<8>, bnum::BIntD8<16>, bnum::BIntD8<17>,
    bnum::BIntD16<1>, bnum::BIntD16<2>, bnum::BIntD16<3>, bnum::BIntD16<4>, bnum::BIntD16<5>, bnum::BIntD16<8>, bnum::BIntD32<1>, bnum::BIntD32<2>, bnum::BIntD32<3>, bnum::BIntD32<4>, bnum::BIntD32<5>,
    bnum::BInt<1>, bnum::BInt<2>, bnum::BInt<3>, bnum::BInt<4>, bnum::BInt<5>); }; }

//! C14: float <-> integer casts.

use bnum::cast::CastFrom;
use refmodel::floatspec::{self, FloatFmt, F32, F64};
use refmodel::sets::{self, Tier};
use refmodel::{BigRef, Expect, Obs};
use vengine::{hex, par_chunks, unhex, Local, Run, Subj};

type Z = BigRef;

fn big(v: i128) -> BigRef {
    BigRef::from_i128(v)
}

fn guard(f: impl FnOnce() -> Obs<Z>) -> Obs<Z> {
    match std::panic::catch_unwind(std::panic::AssertUnwindSafe(f)) {
        Ok(o) => o,
        Err(_) => Obs::Panic,
    }
}

/// low 128 bits of the pattern
fn low_u128<T: Subj>(x: &T) -> u128 {
    let mut v = 0u128;
    for i in 0..T::N {
        let sh = i as u32 * T::DIGIT_BITS;
        if sh < 128 {
            v |= (x.digit(i) as u128) << sh;
        }
    }
    v
}

/// float -> integer for one target type
pub fn f2i_check<T>(run: &mut Run)
where
    T: Subj + CastFrom<f32> + CastFrom<f64>,
{
    let config = T::type_name();
    let ti = T::ti();
    for (op, f) in [("cast_from_f32", F32), ("cast_from_f64", F64)] {
        if let Some((st, _)) = run.replay_target(&config, op) {
            let bits = u64::from_str_radix(st[0].trim_start_matches("0x"), 16).unwrap();
            let e: Expect<Z> = Expect::Is(Obs::V(floatspec::float_to_int(bits, f, ti)));
            let o = guard(|| Obs::V(if f == F32 { T::cast_from(f32::from_bits(bits as u32)).z::<Z>() } else { T::cast_from(f64::from_bits(bits)).z::<Z>() }));
            println!("replay {} {} bits {:#x}", config, op, bits);
            run.replay_verdict(&e, &o);
            return;
        }
    }
    if run.in_replay() || !run.wants(&config) {
        return;
    }
    if run.over_deadline() {
        run.cap_hit = true;
        return;
    }
    let threads = run.threads;
    // structured patterns, exact model
    for (op, f) in [("cast_from_f32", F32), ("cast_from_f64", F64)] {
        let pats = floatspec::structured_patterns(f, f == F32);
        let cfg = config.clone();
        let l = par_chunks(threads, pats.len(), |lo, hi, l| {
            for &b in &pats[lo..hi] {
                l.enter(&cfg, op, || vec![format!("{:#x}", b)], 0);
                let e: Expect<Z> = Expect::Is(Obs::V(floatspec::float_to_int(b, f, ti)));
                let o = guard(|| Obs::V(if f == F32 { T::cast_from(f32::from_bits(b as u32)).z::<Z>() } else { T::cast_from(f64::from_bits(b)).z::<Z>() }));
                l.check(&cfg, op, || vec![format!("{:#x}", b)], 0, &e, &o);
            }
        });
        run.merge(&config, "sign x every exponent x mantissa alphabet", op, pats.len() as u64, l);
    }
    // thorough: every f32 bit pattern (fast path for targets of at most 128 bits)
    if run.tier == Tier::Thorough && T::BITS <= 128 {
        let cfg = config.clone();
        let n = 1usize << 32;
        let l = par_chunks(threads, n >> 12, |lo, hi, l| {
            for blk in lo..hi {
                for low in 0..(1u32 << 12) {
                    let b = ((blk as u32) << 12) | low;
                    let (neg, mag) = floatspec::f32_to_int_fast(b, T::BITS, T::SIGNED);
                    let x = match std::panic::catch_unwind(|| T::cast_from(f32::from_bits(b))) {
                        Ok(x) => x,
                        Err(_) => {
                            l.check::<Z>(&cfg, "cast_from_f32", || vec![format!("{:#x}", b)], 0, &Expect::NoPanic, &Obs::Panic);
                            continue;
                        }
                    };
                    // compare on the bit pattern
                    let want = if neg { (mag as i128).wrapping_neg() as u128 } else { mag };
                    let mask = if T::BITS == 128 { u128::MAX } else { (1u128 << T::BITS) - 1 };
                    let ok = low_u128(&x) == (want & mask);
                    l.transitions += 1;
                    if !ok {
                        let e: Expect<Z> = Expect::Is(Obs::V(floatspec::float_to_int(b as u64, F32, ti)));
                        let o = Obs::V(x.z::<Z>());
                        l.transitions -= 1;
                        l.check(&cfg, "cast_from_f32", || vec![format!("{:#x}", b)], 0, &e, &o);
                    }
                }
            }
        });
        run.merge(&config, "all 2^32 f32 bit patterns", "cast_from_f32", 1u64 << 32, l);
        // every f64 whose low 32 bits are 0, 1 or all ones: all 2^32 high words (sign, exponent, top 20
        // mantissa bits) x 3 low words
        let cfg = config.clone();
        let l = par_chunks(threads, 1usize << 20, |lo, hi, l| {
            for blk in lo..hi {
                for low in 0..(1u64 << 12) {
                    let high = ((blk as u64) << 12) | low;
                    for lw in [0u64, 1, 0xffff_ffff] {
                        let b = (high << 32) | lw;
                        let (neg, mag) = floatspec::f64_to_int_fast(b, T::BITS, T::SIGNED);
                        let x = match std::panic::catch_unwind(|| T::cast_from(f64::from_bits(b))) {
                            Ok(x) => x,
                            Err(_) => {
                                l.check::<Z>(&cfg, "cast_from_f64", || vec![format!("{:#x}", b)], 0, &Expect::NoPanic, &Obs::Panic);
                                continue;
                            }
                        };
                        let want = if neg { (mag as i128).wrapping_neg() as u128 } else { mag };
                        let mask = if T::BITS == 128 { u128::MAX } else { (1u128 << T::BITS) - 1 };
                        l.transitions += 1;
                        if low_u128(&x) != (want & mask) {
                            let e: Expect<Z> = Expect::Is(Obs::V(floatspec::float_to_int(b, F64, ti)));
                            let o = Obs::V(x.z::<Z>());
                            l.transitions -= 1;
                            l.check(&cfg, "cast_from_f64", || vec![format!("{:#x}", b)], 0, &e, &o);
                        }
                    }
                }
            }
        });
        run.merge(&config, "all 2^32 high words of f64 x low word in {0, 1, ffffffff}", "cast_from_f64", 3u64 << 32, l);
    }
}

/// integer values whose rounding to p = 24 / 53 bits is interesting: for every bit length L,
/// {top-p-bit patterns} x {guard bit} x {sticky: none, lowest, highest, all}
pub fn rounding_values(bits: u32, signed: bool, tier: Tier) -> Vec<Vec<u8>> {
    let nb = (bits / 8) as usize;
    let mut out: Vec<Vec<u8>> = Vec::new();
    let maxlen = if signed { bits - 1 } else { bits };
    let mut lens: Vec<u32> = (1..=maxlen.min(130)).collect();
    if maxlen > 130 {
        // wide types: lengths around digit boundaries, the float limits and the top
        for l in [191u32, 192, 193, 255, 256, 257, 1022, 1023, 1024, 1025, 1026, 1077, 2048, 4096, maxlen - 1, maxlen] {
            if l <= maxlen {
                lens.push(l);
            }
        }
        if tier == Tier::Thorough {
            lens.extend(131..=maxlen.min(1100));
        }
        lens.sort();
        lens.dedup();
    }
    for &l in &lens {
        for p in [24u32, 53] {
            let tops: Vec<u128> = vec![1u128 << (p - 1), (1u128 << (p - 1)) + 1, (1u128 << p) - 1, (1u128 << p) - 2, (1u128 << (p - 1)) | 0x555555, (1u128 << (p - 1)) | 0x2aaaaa];
            for top in tops {
                if l <= p {
                    // fits the mantissa: exact
                    let v = BigRef::from_u128(top >> (p - l));
                    out.push(v.to_le_bytes_wrapped(nb));
                    if signed {
                        out.push(v.neg().to_le_bytes_wrapped(nb));
                    }
                    continue;
                }
                let below = (l - p) as u64; // number of dropped bits
                let base = BigRef::from_u128(top).shl(below);
                for guard in [false, true] {
                    let g = if guard { BigRef::pow2(below - 1) } else { BigRef::zero() };
                    let mut stickies = vec![BigRef::zero()];
                    if below >= 2 {
                        stickies.push(big(1));
                        stickies.push(BigRef::pow2(below - 2));
                        stickies.push(BigRef::pow2(below - 1).sub(&big(1)));
                    }
                    for s in stickies {
                        let v = base.add(&g).add(&s);
                        out.push(v.to_le_bytes_wrapped(nb));
                        if signed {
                            out.push(v.neg().to_le_bytes_wrapped(nb));
                        }
                    }
                }
            }
        }
    }
    sets::dedup(out)
}

/// integer -> float for one source type
pub fn i2f_check<T>(run: &mut Run)
where
    T: Subj,
    f32: CastFrom<T>,
    f64: CastFrom<T>,
{
    let config = T::type_name();
    let one = |x: &T, f: FloatFmt| -> (Expect<Z>, Obs<Z>) {
        let e: Expect<Z> = Expect::Is(Obs::F(floatspec::int_to_float(&x.z::<Z>(), f)));
        let xx = *x;
        let o = guard(move || Obs::F(if f == F32 { f32::cast_from(xx).to_bits() as u64 } else { f64::cast_from(xx).to_bits() }));
        (e, o)
    };
    for (op, f) in [("as_f32", F32), ("as_f64", F64)] {
        if let Some((st, _)) = run.replay_target(&config, op) {
            let x = T::from_le(&unhex(&st[0]));
            let (e, o) = one(&x, f);
            println!("replay {} {} {}", config, op, st[0]);
            run.replay_verdict(&e, &o);
            return;
        }
    }
    if run.in_replay() || !run.wants(&config) {
        return;
    }
    if run.over_deadline() {
        run.cap_hit = true;
        return;
    }
    let bits = T::BITS;
    let mut vals: Vec<Vec<u8>> = if bits <= 16 { sets::full(bits) } else { sets::structured(T::DIGIT_BITS, T::N, run.tier) };
    vals.extend(rounding_values(bits, T::SIGNED, run.tier));
    let vals = sets::dedup(vals);
    let xs: Vec<T> = vals.iter().map(|b| T::from_le(b)).collect();
    for (op, f) in [("as_f32", F32), ("as_f64", F64)] {
        let cfg = config.clone();
        let l = par_chunks(run.threads, xs.len(), |lo, hi, l| {
            for x in &xs[lo..hi] {
                l.enter(&cfg, op, || vec![hex(&x.le())], 0);
                let (e, o) = one(x, f);
                l.check(&cfg, op, || vec![hex(&x.le())], 0, &e, &o);
            }
        });
        run.merge(&config, "FULL / boundary sets + rounding patterns per bit length", op, xs.len() as u64, l);
    }
    // thorough: every value below 2^32 (all roundings of a 32-bit payload) for types of >= 32 bits
    if run.tier == Tier::Thorough && bits >= 32 && bits <= 128 {
        let cfg = config.clone();
        let nb = T::bytes();
        let l = par_chunks(run.threads, 1 << 20, |lo, hi, l| {
            let mut buf = vec![0u8; nb];
            for blk in lo..hi {
                for low in 0..(1u32 << 12) {
                    let v = ((blk as u32) << 12) | low;
                    buf[..4].copy_from_slice(&v.to_le_bytes());
                    let x = T::from_le(&buf);
                    let want = (v as f32).to_bits() as u64; // primitive oracle (self-checked against the model)
                    let got = f32::cast_from(x).to_bits() as u64;
                    l.transitions += 1;
                    if want != got {
                        l.transitions -= 1;
                        let (e, o) = one(&x, F32);
                        l.check(&cfg, "as_f32", || vec![hex(&x.le())], 0, &e, &o);
                    }
                }
            }
        });
        run.merge(&config, "all values below 2^32", "as_f32", 1u64 << 32, l);
    }
}

//! C16 (c): associated constants against the model.

use refmodel::{BigRef, Expect, Obs};
use vengine::{Local, Run, Subj};

type Z = BigRef;

pub trait ConstApi: Subj {
    fn bits_const() -> u32;
    fn bytes_const() -> u32;
    fn named() -> Vec<(&'static str, Self, i128)>;
    fn min_const() -> Self;
    fn max_const() -> Self;
}

macro_rules! impl_consts {
    ($U:ident, $I:ident) => {
        impl<const N: usize> ConstApi for bnum::$U<N> {
            fn bits_const() -> u32 {
                Self::BITS
            }
            fn bytes_const() -> u32 {
                Self::BYTES
            }
            fn min_const() -> Self {
                Self::MIN
            }
            fn max_const() -> Self {
                Self::MAX
            }
            fn named() -> Vec<(&'static str, Self, i128)> {
                vec![("ZERO", Self::ZERO, 0), ("ONE", Self::ONE, 1), ("TWO", Self::TWO, 2), ("THREE", Self::THREE, 3), ("FOUR", Self::FOUR, 4), ("FIVE", Self::FIVE, 5), ("SIX", Self::SIX, 6), ("SEVEN", Self::SEVEN, 7), ("EIGHT", Self::EIGHT, 8), ("NINE", Self::NINE, 9), ("TEN", Self::TEN, 10)]
            }
        }
        impl<const N: usize> ConstApi for bnum::$I<N> {
            fn bits_const() -> u32 {
                Self::BITS
            }
            fn bytes_const() -> u32 {
                Self::BYTES
            }
            fn min_const() -> Self {
                Self::MIN
            }
            fn max_const() -> Self {
                Self::MAX
            }
            fn named() -> Vec<(&'static str, Self, i128)> {
                vec![
                    ("ZERO", Self::ZERO, 0), ("ONE", Self::ONE, 1), ("TWO", Self::TWO, 2), ("THREE", Self::THREE, 3), ("FOUR", Self::FOUR, 4), ("FIVE", Self::FIVE, 5),
                    ("SIX", Self::SIX, 6), ("SEVEN", Self::SEVEN, 7), ("EIGHT", Self::EIGHT, 8), ("NINE", Self::NINE, 9), ("TEN", Self::TEN, 10),
                    ("NEG_ONE", Self::NEG_ONE, -1), ("NEG_TWO", Self::NEG_TWO, -2), ("NEG_THREE", Self::NEG_THREE, -3), ("NEG_FOUR", Self::NEG_FOUR, -4), ("NEG_FIVE", Self::NEG_FIVE, -5),
                    ("NEG_SIX", Self::NEG_SIX, -6), ("NEG_SEVEN", Self::NEG_SEVEN, -7), ("NEG_EIGHT", Self::NEG_EIGHT, -8), ("NEG_NINE", Self::NEG_NINE, -9), ("NEG_TEN", Self::NEG_TEN, -10),
                ]
            }
        }
    };
}
impl_consts!(BUintD8, BIntD8);
impl_consts!(BUintD16, BIntD16);
impl_consts!(BUintD32, BIntD32);
impl_consts!(BUint, BInt);

/// constants of one configuration; `digit_bits` / `n` are what the type name advertises
pub fn consts_check<T: ConstApi>(run: &mut Run, digit_bits: u32, n: usize) {
    let config = T::type_name();
    let op = "associated constants";
    if run.in_replay() {
        if run.replay_target(&config, op).is_none() {
            return;
        }
    } else if !run.wants_prefix(&config) {
        return;
    }
    let mut l = Local::default();
    let ti = refmodel::TypeInfo { bits: digit_bits * n as u32, signed: T::SIGNED };
    let mut chk = |name: &str, e: Expect<Z>, o: Obs<Z>| {
        l.check(&config, op, || vec![name.to_string()], 0, &e, &o);
    };
    chk("BITS", Expect::Is(Obs::N((digit_bits * n as u32) as u64)), Obs::N(T::bits_const() as u64));
    chk("BYTES", Expect::Is(Obs::N((digit_bits * n as u32 / 8) as u64)), Obs::N(T::bytes_const() as u64));
    chk("MIN", Expect::Is(Obs::V(ti.min::<Z>())), Obs::V(T::min_const().z::<Z>()));
    chk("MAX", Expect::Is(Obs::V(ti.max::<Z>())), Obs::V(T::max_const().z::<Z>()));
    for (name, v, want) in T::named() {
        // TEN does not fit... every constant up to 10 fits even an 8-bit type
        chk(name, Expect::Is(Obs::V(Z::from_i128(want))), Obs::V(v.z::<Z>()));
    }
    if run.in_replay() {
        match l.viols.first() {
            Some(v) => println!("  expected: {}\n  observed: {}\nREPRODUCED", v.expected, v.observed),
            None => println!("NOT-REPRODUCED"),
        }
        return;
    }
    let n = l.transitions;
    run.merge(&config, "constants", op, n, l);
}

/// the aliases of bnum::types have exactly the named widths and are the u64-digit types
pub fn aliases_check(run: &mut Run) {
    use bnum::types::*;
    let config = "bnum::types";
    let op = "aliases";
    if run.in_replay() {
        if run.replay_target(config, op).is_none() {
            return;
        }
    }
    let mut l = Local::default();
    macro_rules! alias {
        ($($bits:literal $u:ident $i:ident $n:literal);*) => {$(
            {
                let e: Expect<Z> = Expect::Is(Obs::S(format!("BUint<{}>/BInt<{}> {} bits", $n, $n, $bits)));
                let o: Obs<Z> = Obs::S(format!("{}/{} {} bits", <$u as Subj>::type_name(), <$i as Subj>::type_name(), if <$u>::BITS == <$i>::BITS { <$u>::BITS } else { 0 }));
                l.check(config, op, || vec![stringify!($u).to_string()], 0, &e, &o);
            }
        )*};
    }
    alias!(128 U128 I128 2; 256 U256 I256 4; 512 U512 I512 8; 1024 U1024 I1024 16; 2048 U2048 I2048 32; 4096 U4096 I4096 64; 8192 U8192 I8192 128);
    if run.in_replay() {
        match l.viols.first() {
            Some(v) => println!("  expected: {}\n  observed: {}\nREPRODUCED", v.expected, v.observed),
            None => println!("NOT-REPRODUCED"),
        }
        return;
    }
    run.merge(config, "aliases", op, 7, l);
}

pub mod big;
pub mod engine;
pub mod json;
pub mod prim;
pub mod sets;
pub mod spec;
pub mod znum;

pub use big::BigRef;
pub use engine::*;
pub use json::J;
pub use sets::Tier;
pub use spec::Ctx;
pub use znum::*;

//! Reference model (no bnum dependency): exact integers, spec functions, value sets, and the
//! explorer source.  The explorer (`engine.rs`) is compiled twice: here, bound to Rust's primitive
//! integers for the model self-check, and in `vengine` (via #[path]), bound to the bnum types.
extern crate self as refmodel;

pub mod big;
pub mod engine;
pub mod floatspec;
pub mod json;
pub mod prim;
pub mod sets;
pub mod spec;
pub mod znum;

pub use big::BigRef;
pub use json::J;
pub use sets::Tier;
pub use spec::Ctx;
pub use znum::*;

//! Exact integers for the reference model: sign + magnitude, schoolbook algorithms,
//! bit-serial division.  Deliberately boring and independent of bnum.

use std::cmp::Ordering;

#[derive(Clone, PartialEq, Eq, Hash, Debug)]
pub struct BigRef {
    neg: bool,
    mag: Vec<u32>, // little-endian limbs, no trailing zero limbs; zero = empty and !neg
}

fn trim(v: &mut Vec<u32>) {
    while let Some(&0) = v.last() {
        v.pop();
    }
}

fn cmp_mag(a: &[u32], b: &[u32]) -> Ordering {
    if a.len() != b.len() {
        return a.len().cmp(&b.len());
    }
    for i in (0..a.len()).rev() {
        if a[i] != b[i] {
            return a[i].cmp(&b[i]);
        }
    }
    Ordering::Equal
}

fn add_mag(a: &[u32], b: &[u32]) -> Vec<u32> {
    let (a, b) = if a.len() >= b.len() { (a, b) } else { (b, a) };
    let mut out = Vec::with_capacity(a.len() + 1);
    let mut carry = 0u64;
    for i in 0..a.len() {
        let s = a[i] as u64 + if i < b.len() { b[i] as u64 } else { 0 } + carry;
        out.push(s as u32);
        carry = s >> 32;
    }
    if carry != 0 {
        out.push(carry as u32);
    }
    out
}

/// a - b, requires a >= b
fn sub_mag(a: &[u32], b: &[u32]) -> Vec<u32> {
    debug_assert!(cmp_mag(a, b) != Ordering::Less);
    let mut out = Vec::with_capacity(a.len());
    let mut borrow = 0i64;
    for i in 0..a.len() {
        let mut d = a[i] as i64 - if i < b.len() { b[i] as i64 } else { 0 } - borrow;
        if d < 0 {
            d += 1 << 32;
            borrow = 1;
        } else {
            borrow = 0;
        }
        out.push(d as u32);
    }
    assert_eq!(borrow, 0, "sub_mag underflow");
    trim(&mut out);
    out
}

fn mul_mag(a: &[u32], b: &[u32]) -> Vec<u32> {
    if a.is_empty() || b.is_empty() {
        return Vec::new();
    }
    let mut out = vec![0u32; a.len() + b.len()];
    for i in 0..a.len() {
        let mut carry = 0u64;
        let ai = a[i] as u64;
        if ai == 0 {
            continue;
        }
        for j in 0..b.len() {
            let t = ai * b[j] as u64 + out[i + j] as u64 + carry;
            out[i + j] = t as u32;
            carry = t >> 32;
        }
        let mut k = i + b.len();
        while carry != 0 {
            let t = out[k] as u64 + carry;
            out[k] = t as u32;
            carry = t >> 32;
            k += 1;
        }
    }
    trim(&mut out);
    out
}

fn bitlen_mag(a: &[u32]) -> u64 {
    match a.last() {
        None => 0,
        Some(&t) => (a.len() as u64 - 1) * 32 + (32 - t.leading_zeros() as u64),
    }
}

fn bit_mag(a: &[u32], i: u64) -> bool {
    let l = (i / 32) as usize;
    l < a.len() && (a[l] >> (i % 32)) & 1 == 1
}

/// bit-serial (shift-and-subtract) division of magnitudes; b != 0.
fn divrem_mag(a: &[u32], b: &[u32]) -> (Vec<u32>, Vec<u32>) {
    assert!(!b.is_empty(), "model division by zero");
    if cmp_mag(a, b) == Ordering::Less {
        return (Vec::new(), a.to_vec());
    }
    if b.len() == 1 {
        // short division by one limb
        let d = b[0] as u64;
        let mut q = vec![0u32; a.len()];
        let mut r = 0u64;
        for i in (0..a.len()).rev() {
            let cur = (r << 32) | a[i] as u64;
            q[i] = (cur / d) as u32;
            r = cur % d;
        }
        trim(&mut q);
        let mut rv = vec![r as u32];
        trim(&mut rv);
        return (q, rv);
    }
    let nbits = bitlen_mag(a);
    let mut q = vec![0u32; a.len()];
    // remainder kept in a fixed buffer one limb longer than b
    let rl = b.len() + 1;
    let mut r = vec![0u32; rl];
    let mut bb = b.to_vec();
    bb.push(0);
    for i in (0..nbits).rev() {
        // r = (r << 1) | bit i of a
        let mut carry = bit_mag(a, i) as u32;
        for limb in r.iter_mut() {
            let nc = *limb >> 31;
            *limb = (*limb << 1) | carry;
            carry = nc;
        }
        // if r >= b: r -= b
        let mut ge = true;
        for k in (0..rl).rev() {
            if r[k] != bb[k] {
                ge = r[k] > bb[k];
                break;
            }
        }
        if ge {
            let mut borrow = 0i64;
            for k in 0..rl {
                let mut d = r[k] as i64 - bb[k] as i64 - borrow;
                if d < 0 {
                    d += 1 << 32;
                    borrow = 1;
                } else {
                    borrow = 0;
                }
                r[k] = d as u32;
            }
            q[(i / 32) as usize] |= 1 << (i % 32);
        }
    }
    trim(&mut q);
    trim(&mut r);
    (q, r)
}

fn shl_mag(a: &[u32], k: u64) -> Vec<u32> {
    if a.is_empty() {
        return Vec::new();
    }
    let limbs = (k / 32) as usize;
    let bits = (k % 32) as u32;
    let mut out = vec![0u32; limbs];
    if bits == 0 {
        out.extend_from_slice(a);
    } else {
        let mut carry = 0u32;
        for &x in a {
            out.push((x << bits) | carry);
            carry = x >> (32 - bits);
        }
        if carry != 0 {
            out.push(carry);
        }
    }
    out
}

fn shr_mag(a: &[u32], k: u64) -> Vec<u32> {
    let limbs = (k / 32) as usize;
    let bits = (k % 32) as u32;
    if limbs >= a.len() {
        return Vec::new();
    }
    let mut out = Vec::with_capacity(a.len() - limbs);
    for i in limbs..a.len() {
        let lo = a[i] >> bits;
        let hi = if bits != 0 && i + 1 < a.len() { a[i + 1] << (32 - bits) } else { 0 };
        out.push(lo | hi);
    }
    trim(&mut out);
    out
}

impl BigRef {
    pub fn zero() -> Self {
        BigRef { neg: false, mag: Vec::new() }
    }
    fn mk(neg: bool, mut mag: Vec<u32>) -> Self {
        trim(&mut mag);
        let neg = neg && !mag.is_empty();
        BigRef { neg, mag }
    }
    pub fn from_u128(v: u128) -> Self {
        let mag = vec![v as u32, (v >> 32) as u32, (v >> 64) as u32, (v >> 96) as u32];
        Self::mk(false, mag)
    }
    pub fn from_i128(v: i128) -> Self {
        let mut r = Self::from_u128(v.unsigned_abs());
        r.neg = v < 0;
        r
    }
    pub fn to_i128(&self) -> Option<i128> {
        if self.mag.len() > 4 {
            return None;
        }
        let mut m = 0u128;
        for (i, &l) in self.mag.iter().enumerate() {
            m |= (l as u128) << (32 * i);
        }
        if self.neg {
            if m <= 1u128 << 127 {
                Some((m as i128).wrapping_neg())
            } else {
                None
            }
        } else if m < 1u128 << 127 {
            Some(m as i128)
        } else {
            None
        }
    }
    pub fn to_u128(&self) -> Option<u128> {
        if self.neg || self.mag.len() > 4 {
            return None;
        }
        let mut m = 0u128;
        for (i, &l) in self.mag.iter().enumerate() {
            m |= (l as u128) << (32 * i);
        }
        Some(m)
    }
    /// unsigned little-endian bytes
    pub fn from_le_bytes_unsigned(bytes: &[u8]) -> Self {
        let mut mag = vec![0u32; (bytes.len() + 3) / 4];
        for (i, &b) in bytes.iter().enumerate() {
            mag[i / 4] |= (b as u32) << (8 * (i % 4));
        }
        Self::mk(false, mag)
    }
    /// two's complement little-endian bytes when `signed`
    pub fn from_le_bytes(bytes: &[u8], signed: bool) -> Self {
        let u = Self::from_le_bytes_unsigned(bytes);
        if signed && !bytes.is_empty() && bytes[bytes.len() - 1] & 0x80 != 0 {
            u.sub(&Self::pow2(8 * bytes.len() as u64))
        } else {
            u
        }
    }
    /// magnitude as little-endian bytes (minimal length, empty for zero)
    pub fn mag_le_bytes(&self) -> Vec<u8> {
        let mut out = Vec::with_capacity(self.mag.len() * 4);
        for &l in &self.mag {
            out.extend_from_slice(&l.to_le_bytes());
        }
        while let Some(&0) = out.last() {
            out.pop();
        }
        out
    }
    /// value mod 2^(8n) as n little-endian bytes (two's complement image)
    pub fn to_le_bytes_wrapped(&self, n: usize) -> Vec<u8> {
        let m = self.mod_pow2(8 * n as u64);
        let mut out = m.mag_le_bytes();
        out.resize(n, 0);
        out
    }
    pub fn pow2(k: u64) -> Self {
        let mut mag = vec![0u32; (k / 32) as usize + 1];
        mag[(k / 32) as usize] = 1 << (k % 32);
        BigRef { neg: false, mag }
    }
    pub fn is_zero(&self) -> bool {
        self.mag.is_empty()
    }
    pub fn is_neg(&self) -> bool {
        self.neg
    }
    pub fn neg(&self) -> Self {
        Self::mk(!self.neg, self.mag.clone())
    }
    pub fn abs(&self) -> Self {
        Self::mk(false, self.mag.clone())
    }
    pub fn add(&self, o: &Self) -> Self {
        if self.neg == o.neg {
            Self::mk(self.neg, add_mag(&self.mag, &o.mag))
        } else {
            match cmp_mag(&self.mag, &o.mag) {
                Ordering::Equal => Self::zero(),
                Ordering::Greater => Self::mk(self.neg, sub_mag(&self.mag, &o.mag)),
                Ordering::Less => Self::mk(o.neg, sub_mag(&o.mag, &self.mag)),
            }
        }
    }
    pub fn sub(&self, o: &Self) -> Self {
        self.add(&o.neg())
    }
    pub fn mul(&self, o: &Self) -> Self {
        Self::mk(self.neg != o.neg, mul_mag(&self.mag, &o.mag))
    }
    /// truncating division: q rounds toward zero, r has the sign of self
    pub fn divrem_trunc(&self, o: &Self) -> (Self, Self) {
        let (q, r) = divrem_mag(&self.mag, &o.mag);
        (Self::mk(self.neg != o.neg, q), Self::mk(self.neg, r))
    }
    /// floor division: r has the sign of the divisor
    pub fn divrem_floor(&self, o: &Self) -> (Self, Self) {
        let (q, r) = self.divrem_trunc(o);
        if !r.is_zero() && (r.neg != o.neg) {
            (q.sub(&Self::from_i128(1)), r.add(o))
        } else {
            (q, r)
        }
    }
    /// euclidean division: 0 <= r < |o|
    pub fn divrem_euclid(&self, o: &Self) -> (Self, Self) {
        let (q, r) = self.divrem_trunc(o);
        if r.neg {
            if o.neg {
                (q.add(&Self::from_i128(1)), r.sub(o))
            } else {
                (q.sub(&Self::from_i128(1)), r.add(o))
            }
        } else {
            (q, r)
        }
    }
    pub fn shl(&self, k: u64) -> Self {
        Self::mk(self.neg, shl_mag(&self.mag, k))
    }
    /// floor(self / 2^k)
    pub fn shr_floor(&self, k: u64) -> Self {
        let q = shr_mag(&self.mag, k);
        if self.neg {
            // floor for negatives: -(ceil(mag / 2^k))
            let back = shl_mag(&q, k);
            let exact = cmp_mag(&back, &self.mag) == Ordering::Equal;
            let q = if exact { q } else { add_mag(&q, &[1]) };
            Self::mk(true, q)
        } else {
            Self::mk(false, q)
        }
    }
    /// self mod 2^k in [0, 2^k)
    pub fn mod_pow2(&self, k: u64) -> Self {
        let limbs = ((k + 31) / 32) as usize;
        let mut m: Vec<u32> = self.mag.iter().cloned().take(limbs).collect();
        if k % 32 != 0 && m.len() == limbs {
            m[limbs - 1] &= (1u32 << (k % 32)) - 1;
        }
        let m = Self::mk(false, m);
        if self.neg && !m.is_zero() {
            Self::pow2(k).sub(&m)
        } else {
            m
        }
    }
    /// number of bits of the magnitude
    pub fn bit_len(&self) -> u64 {
        bitlen_mag(&self.mag)
    }
    /// bit i of the magnitude
    pub fn mag_bit(&self, i: u64) -> bool {
        bit_mag(&self.mag, i)
    }
    pub fn mag_trailing_zeros(&self) -> u64 {
        for (i, &l) in self.mag.iter().enumerate() {
            if l != 0 {
                return i as u64 * 32 + l.trailing_zeros() as u64;
            }
        }
        0
    }
    pub fn is_even(&self) -> bool {
        self.mag.first().map_or(true, |l| l & 1 == 0)
    }
    pub fn cmp_z(&self, o: &Self) -> Ordering {
        match (self.neg, o.neg) {
            (false, true) => Ordering::Greater,
            (true, false) => Ordering::Less,
            (false, false) => cmp_mag(&self.mag, &o.mag),
            (true, true) => cmp_mag(&o.mag, &self.mag),
        }
    }
    /// exact power; caller bounds the size
    pub fn pow(&self, e: u64) -> Self {
        let mut acc = Self::from_i128(1);
        for _ in 0..e {
            acc = acc.mul(self);
        }
        acc
    }
    /// divide magnitude by small d, returning (quotient, remainder)
    pub fn divrem_small(&self, d: u32) -> (Self, u32) {
        assert!(!self.neg && d != 0);
        let mut q = vec![0u32; self.mag.len()];
        let mut r = 0u64;
        for i in (0..self.mag.len()).rev() {
            let cur = (r << 32) | self.mag[i] as u64;
            q[i] = (cur / d as u64) as u32;
            r = cur % d as u64;
        }
        (Self::mk(false, q), r as u32)
    }
    /// digits of the magnitude in `radix` (2..=256), least significant first; empty for zero
    pub fn mag_digits_le(&self, radix: u32) -> Vec<u8> {
        let mut cur = self.abs();
        let mut out = Vec::new();
        while !cur.is_zero() {
            let (q, r) = cur.divrem_small(radix);
            out.push(r as u8);
            cur = q;
        }
        out
    }
    pub fn from_digits_be(digits: &[u8], radix: u32) -> Self {
        let mut acc = Self::zero();
        let r = Self::from_i128(radix as i128);
        for &d in digits {
            acc = acc.mul(&r).add(&Self::from_i128(d as i128));
        }
        acc
    }
    /// canonical numeral: lowercase, '-' prefix for negative, "0" for zero
    pub fn to_str_radix(&self, radix: u32) -> String {
        assert!((2..=36).contains(&radix));
        if self.is_zero() {
            return "0".to_string();
        }
        let mut s = String::new();
        if self.neg {
            s.push('-');
        }
        for &d in self.mag_digits_le(radix).iter().rev() {
            s.push(std::char::from_digit(d as u32, radix).unwrap());
        }
        s
    }
    /// largest r >= 0 with r^n <= self (self >= 0, n >= 1), bit-by-bit search
    pub fn nth_root_floor(&self, n: u64) -> Self {
        assert!(!self.neg && n >= 1);
        if self.is_zero() {
            return Self::zero();
        }
        let bl = self.bit_len();
        if n >= bl {
            return Self::from_i128(1);
        }
        let top = (bl + n - 1) / n; // r < 2^top
        let mut r = Self::zero();
        for i in (0..top).rev() {
            let cand = r.add(&Self::pow2(i));
            if cand.pow_le(n, self) {
                r = cand;
            }
        }
        r
    }
    /// self^n <= bound, with early exit
    fn pow_le(&self, n: u64, bound: &Self) -> bool {
        let mut acc = Self::from_i128(1);
        let bb = bound.bit_len();
        for _ in 0..n {
            acc = acc.mul(self);
            if acc.bit_len() > bb {
                return false;
            }
        }
        acc.cmp_z(bound) != Ordering::Greater
    }
}

impl PartialOrd for BigRef {
    fn partial_cmp(&self, o: &Self) -> Option<Ordering> {
        Some(self.cmp_z(o))
    }
}
impl Ord for BigRef {
    fn cmp(&self, o: &Self) -> Ordering {
        self.cmp_z(o)
    }
}

impl std::fmt::Display for BigRef {
    fn fmt(&self, f: &mut std::fmt::Formatter<'_>) -> std::fmt::Result {
        if self.bit_len() <= 200 {
            write!(f, "{}", self.to_str_radix(10))
        } else {
            write!(f, "{}0x{}", if self.neg { "-" } else { "" }, self.abs().to_str_radix(16))
        }
    }
}

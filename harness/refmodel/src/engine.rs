//! The explorer: enumerates every state of a plan, runs every operation of a table on the real
//! implementation and compares each transition with the spec.  Also the report / evidence /
//! replay plumbing shared by every check binary.

use refmodel::json::J;
use refmodel::sets::Tier;
use refmodel::spec::{Ctx, SpecFn};
use refmodel::znum::*;
use std::collections::{BTreeMap, HashSet};
use std::panic::{catch_unwind, AssertUnwindSafe};
use std::sync::Mutex;
use std::time::Instant;

/// A type under test (implemented for the bnum families in the check crates and for primitive
/// wrappers in the model self-check).
pub trait Subj: Copy + PartialEq + Send + Sync + 'static {
    const BITS: u32;
    const SIGNED: bool;
    const DIGIT_BITS: u32;
    const N: usize;
    fn type_name() -> String;
    fn from_le(b: &[u8]) -> Self;
    /// i-th little-endian digit of the bit pattern
    fn digit(&self, i: usize) -> u64;

    fn ti() -> TypeInfo {
        TypeInfo { bits: Self::BITS, signed: Self::SIGNED }
    }
    fn bytes() -> usize {
        (Self::BITS / 8) as usize
    }
    fn z<Z: ZNum>(&self) -> Z {
        Z::from_words(Self::N, Self::DIGIT_BITS, Self::SIGNED, |i| self.digit(i))
    }
    /// the bit pattern read as an unsigned number
    fn zu<Z: ZNum>(&self) -> Z {
        Z::from_words(Self::N, Self::DIGIT_BITS, false, |i| self.digit(i))
    }
    fn le(&self) -> Vec<u8> {
        let db = (Self::DIGIT_BITS / 8) as usize;
        let mut out = Vec::with_capacity(Self::N * db);
        for i in 0..Self::N {
            let d = self.digit(i);
            for j in 0..db {
                out.push((d >> (8 * j)) as u8);
            }
        }
        out
    }
    fn from_z<Z: ZNum>(z: &Z) -> Self {
        Self::from_le(&z.to_le_bytes_wrapped(Self::bytes()))
    }
    fn hex(&self) -> String {
        hex(&self.le())
    }
}

pub fn hex(b: &[u8]) -> String {
    // most significant byte first, like a number
    let mut s = String::with_capacity(2 * b.len() + 2);
    s.push_str("0x");
    for x in b.iter().rev() {
        s.push_str(&format!("{:02x}", x));
    }
    s
}
pub fn unhex(s: &str) -> Vec<u8> {
    let s = s.trim_start_matches("0x");
    let mut out = Vec::new();
    let bytes = s.as_bytes();
    assert!(bytes.len() % 2 == 0, "odd hex length");
    for i in (0..bytes.len()).step_by(2) {
        out.push(u8::from_str_radix(std::str::from_utf8(&bytes[i..i + 2]).unwrap(), 16).unwrap());
    }
    out.reverse();
    out
}

#[derive(Clone, Copy, PartialEq, Eq, Debug, Hash, PartialOrd, Ord)]
pub enum Aux {
    None,
    /// carry bit: 0, 1
    Bool,
    /// shift / rotate amounts
    Shift,
    /// exponents
    Exp,
    /// bit index < BITS
    BitIdx,
    /// bit index | value << 32
    SetBit,
    /// check-specific list
    Custom,
    /// further check-specific lists
    K(u8),
}

pub struct Op<T, Z: ZNum> {
    pub name: &'static str,
    pub arity: u8,
    pub aux: Aux,
    pub f: fn(&[T; 3], u64) -> Obs<Z>,
    pub spec: SpecFn<Z>,
    /// expected panics are part of the property's statement (otherwise such states are skipped)
    pub pscope: bool,
    /// panics often (a Rust panic costs microseconds): on plans with `heavy_b_limit` such an
    /// operation is explored against the first `heavy_b_limit` values of the second register only
    pub heavy: bool,
    /// compare only panic / no-panic (the returned value belongs to another property)
    pub panic_only: bool,
}

impl<T, Z: ZNum> Op<T, Z> {
    pub fn po(mut self) -> Self {
        self.panic_only = true;
        self
    }
    pub fn hv(mut self) -> Self {
        self.heavy = true;
        self
    }
}

pub struct Plan<T> {
    pub label: String,
    pub a: Vec<T>,
    pub b: Vec<T>,
    pub c: Vec<T>,
    pub aux: BTreeMap<Aux, Vec<u64>>,
    pub heavy_b_limit: usize,
}

impl<T: Subj> Plan<T> {
    pub fn new(label: &str, a: &[Vec<u8>], b: &[Vec<u8>], c: &[Vec<u8>]) -> Self {
        let cv = |v: &[Vec<u8>]| v.iter().map(|x| T::from_le(x)).collect::<Vec<T>>();
        let mut aux = BTreeMap::new();
        aux.insert(Aux::None, vec![0]);
        aux.insert(Aux::Bool, vec![0, 1]);
        Plan { label: label.to_string(), a: cv(a), b: cv(b), c: cv(c), aux, heavy_b_limit: usize::MAX }
    }
    pub fn with_heavy_limit(mut self, n: usize) -> Self {
        self.heavy_b_limit = n;
        self
    }
    pub fn with_aux(mut self, k: Aux, v: Vec<u64>) -> Self {
        self.aux.insert(k, v);
        self
    }
}

#[derive(Clone, Default)]
pub struct OpStat {
    pub transitions: u64,
    pub nontrivial: u64,
    pub skipped: u64,
    pub violations: u64,
    pub known: u64,
    pub classes: u64,
    pub values: HashSet<u64>,
    pub samples: Vec<String>,
}

#[derive(Clone)]
pub struct Violation {
    pub config: String,
    pub op: String,
    /// the state the transition started from (register images / strings / bit patterns)
    pub state: Vec<String>,
    pub aux: u64,
    pub expected: String,
    pub observed: String,
    pub known: Option<String>,
}

impl Violation {
    pub fn describe(&self) -> String {
        format!(
            "{} {}({}; aux={}) expected {} observed {}",
            self.config,
            self.op,
            self.state.join(", "),
            self.aux,
            self.expected,
            self.observed
        )
    }
}

pub type KnownFn = fn(&Violation) -> Option<&'static str>;

const VALUE_CAP: usize = 64;

fn hash_str(s: &str) -> u64 {
    let mut h: u64 = 0xcbf29ce484222325;
    for b in s.bytes() {
        h ^= b as u64;
        h = h.wrapping_mul(0x100000001b3);
    }
    h
}

pub struct ConfigStat {
    pub config: String,
    pub plan: String,
    pub states: u64,
    pub transitions: u64,
    pub nontrivial: u64,
    pub skipped: u64,
    pub ops: usize,
}

/// Everything one run of a check binary accumulates.
pub struct Run {
    pub property: String,
    pub tier: Tier,
    pub debug: bool,
    pub profile: String,
    pub start: Instant,
    pub deadline_s: f64,
    pub cap_hit: bool,
    pub threads: usize,
    pub configs: Vec<ConfigStat>,
    pub ops: BTreeMap<String, OpStat>,
    pub violations: Vec<Violation>,
    pub dropped_violations: u64,
    pub known_hits: BTreeMap<String, (u64, String)>,
    pub known_fn: Option<KnownFn>,
    pub enabled_known: Vec<String>,
    pub replay: Option<Vec<String>>,
    pub replay_done: bool,
    /// --locate config plan op ai bi ci aux: print the state at these plan indices
    pub locate: Option<Vec<String>>,
    pub only_config: Option<String>,
    pub notes: Vec<String>,
    pub extra: BTreeMap<String, J>,
    pub out_path: Option<String>,
    pub replay_dir: String,
    pub bin: String,
}

pub fn silence_panics() {
    std::panic::set_hook(Box::new(|_| {}));
}

/// Run a binary's main function on a thread with the default (2 MiB) stack of the worker threads, so that a
/// replayed transition meets the same stack limit as it did during exploration (the main thread has 8 MiB)
pub fn on_worker_stack(f: fn()) {
    match std::thread::Builder::new().name("vmain".into()).spawn(f).expect("spawn").join() {
        Ok(()) => {}
        Err(_) => std::process::exit(101),
    }
}

/// run a call into the code under test; an unwinding panic becomes the observation `Panic`
pub fn guard<Z: ZNum>(f: impl FnOnce() -> Obs<Z>) -> Obs<Z> {
    match catch_unwind(AssertUnwindSafe(f)) {
        Ok(o) => o,
        Err(_) => Obs::Panic,
    }
}

impl Run {
    /// argv: <tier> [--out path] [--known id,id] [--only config] [--replay config op r0 r1 r2 aux]
    pub fn from_args(property: &str, bin: &str) -> Run {
        let args: Vec<String> = std::env::args().collect();
        let mut tier = Tier::Quick;
        let mut out_path = None;
        let mut enabled_known = Vec::new();
        let mut replay = None;
        let mut only_config = None;
        let mut deadline_s = 0.0;
        let mut locate = None;
        let mut i = 1;
        while i < args.len() {
            match args[i].as_str() {
                "quick" => tier = Tier::Quick,
                "thorough" => tier = Tier::Thorough,
                "--out" => {
                    i += 1;
                    out_path = Some(args[i].clone());
                }
                "--known" => {
                    i += 1;
                    enabled_known = args[i].split(',').filter(|s| !s.is_empty()).map(|s| s.to_string()).collect();
                }
                "--only" => {
                    i += 1;
                    only_config = Some(args[i].clone());
                }
                "--deadline" => {
                    i += 1;
                    deadline_s = args[i].parse().unwrap();
                }
                "--replay" => {
                    replay = Some(args[i + 1..].to_vec());
                    break;
                }
                "--locate" => {
                    locate = Some(args[i + 1..].to_vec());
                    break;
                }
                other => {
                    eprintln!("unknown argument {}", other);
                    std::process::exit(2);
                }
            }
            i += 1;
        }
        if deadline_s == 0.0 {
            deadline_s = if tier == Tier::Quick { 240.0 } else { 3.0 * 3600.0 };
        }
        silence_panics();
        // hang watchdog: 60 s without progress in a worker (20 s when replaying one transition); the driver
        // re-runs with a long limit when a reported hang turns out to be a slow but terminating transition
        let hang_s = std::env::var("VERIF_HANG_S").ok().and_then(|s| s.parse::<u64>().ok()).unwrap_or(if replay.is_some() { 20 } else { 60 });
        crumbs::install(hang_s);
        let debug = cfg!(debug_assertions);
        Run {
            property: property.to_string(),
            tier,
            debug,
            profile: String::new(),
            start: Instant::now(),
            deadline_s,
            cap_hit: false,
            threads: std::thread::available_parallelism().map(|n| n.get()).unwrap_or(4).min(16),
            configs: Vec::new(),
            ops: BTreeMap::new(),
            violations: Vec::new(),
            dropped_violations: 0,
            known_hits: BTreeMap::new(),
            known_fn: None,
            enabled_known,
            replay,
            replay_done: false,
            locate,
            only_config,
            notes: Vec::new(),
            extra: BTreeMap::new(),
            out_path,
            replay_dir: format!("replays/{}", property),
            bin: bin.to_string(),
        }
    }

    /// a run without command line (model self-check)
    pub fn bare(property: &str, debug: bool) -> Run {
        Run {
            property: property.to_string(),
            tier: Tier::Quick,
            debug,
            profile: String::new(),
            start: Instant::now(),
            deadline_s: 600.0,
            cap_hit: false,
            threads: std::thread::available_parallelism().map(|n| n.get()).unwrap_or(4).min(16),
            configs: Vec::new(),
            ops: BTreeMap::new(),
            violations: Vec::new(),
            dropped_violations: 0,
            known_hits: BTreeMap::new(),
            known_fn: None,
            enabled_known: Vec::new(),
            replay: None,
            replay_done: false,
            locate: None,
            only_config: None,
            notes: Vec::new(),
            extra: BTreeMap::new(),
            out_path: None,
            replay_dir: String::new(),
            bin: String::new(),
        }
    }

    pub fn over_deadline(&self) -> bool {
        self.start.elapsed().as_secs_f64() > self.deadline_s
    }

    pub fn wants(&self, config: &str) -> bool {
        if let Some(r) = &self.replay {
            return r[0] == config;
        }
        if let Some(l) = &self.locate {
            return l[0] == config;
        }
        match &self.only_config {
            Some(c) => c == config,
            None => true,
        }
    }

    /// like `wants`, for composite configuration names ("A->B"): --only matches the whole name or a prefix
    pub fn wants_prefix(&self, config: &str) -> bool {
        match &self.only_config {
            Some(c) => config == c || config.starts_with(c.as_str()),
            None => true,
        }
    }

    /// record a violation found by a custom engine (strings, floats, ...)
    pub fn record(&mut self, mut v: Violation) {
        if let Some(kf) = self.known_fn {
            if let Some(id) = kf(&v) {
                if self.enabled_known.iter().any(|k| k == id) {
                    v.known = Some(id.to_string());
                }
            }
        }
        let st = self.ops.entry(v.op.clone()).or_default();
        if let Some(id) = &v.known {
            st.known += 1;
            let e = self.known_hits.entry(id.clone()).or_insert((0, v.describe()));
            e.0 += 1;
        } else {
            st.violations += 1;
            let per_op = self.violations.iter().filter(|x| x.op == v.op && x.config == v.config).count();
            if per_op < 1 && self.violations.len() < 200 {
                self.violations.push(v);
            }
        }
    }

    pub fn total_violations(&self) -> u64 {
        self.ops.values().map(|o| o.violations).sum::<u64>() + self.dropped_violations
    }

    /// Explore one configuration: every state of the plan x every operation of the table.
    pub fn explore<T: Subj, Z: ZNum>(&mut self, ops: &[Op<T, Z>], plan: &Plan<T>) {
        let config = T::type_name();
        if !self.wants(&config) {
            return;
        }
        if let Some(r) = self.replay.clone() {
            self.replay_one::<T, Z>(ops, &r);
            return;
        }
        if let Some(l) = self.locate.clone() {
            // l = [config, plan label, op, ai, bi, ci, aux]
            if l[1] == plan.label {
                let g = |v: &Vec<T>, k: &str| -> String {
                    let i: usize = k.parse().unwrap_or(0);
                    v.get(i).or(plan.a.first()).map(|x| x.hex()).unwrap_or_default()
                };
                println!("LOCATED|{}|{}|{}|{}|{}|{}", config, l[2], g(&plan.a, &l[3]), g(&plan.b, &l[4]), g(&plan.c, &l[5]), l[6]);
                self.replay_done = true;
            }
            return;
        }
        if self.over_deadline() {
            self.cap_hit = true;
            self.notes.push(format!("deadline reached before {} {}", config, plan.label));
            return;
        }
        let debug = self.debug;
        let ti = T::ti();
        let zb: Vec<Z> = plan.b.iter().map(|x| x.z()).collect();
        let zc: Vec<Z> = plan.c.iter().map(|x| x.z()).collect();
        let ops1: Vec<usize> = (0..ops.len()).filter(|i| ops[*i].arity == 1).collect();
        let ops2: Vec<usize> = (0..ops.len()).filter(|i| ops[*i].arity == 2).collect();
        let ops3: Vec<usize> = (0..ops.len()).filter(|i| ops[*i].arity == 3).collect();
        let empty: Vec<u64> = vec![0];
        let auxv = |k: Aux| -> &Vec<u64> { plan.aux.get(&k).unwrap_or(&empty) };
        for o in ops {
            assert!(plan.aux.contains_key(&o.aux), "plan {} lacks aux domain {:?} for {}", plan.label, o.aux, o.name);
        }
        let nthreads = self.threads.min(plan.a.len().max(1));
        let deadline = self.deadline_s;
        let start = self.start;
        let results: Mutex<Vec<(Vec<OpStat>, Vec<Violation>, bool)>> = Mutex::new(Vec::new());
        let next = std::sync::atomic::AtomicUsize::new(0);
        let chunk = (plan.a.len() / (nthreads * 8)).max(1);
        let dummy: T = if plan.a.is_empty() { return } else { plan.a[0] };
        let zdummy: Z = Z::zi(0);
        std::thread::scope(|s| {
            for _ in 0..nthreads {
                s.spawn(|| {
                    let mut st: Vec<OpStat> = vec![OpStat::default(); ops.len()];
                    let mut viols: Vec<Violation> = Vec::new();
                    let mut capped = false;
                    let slot = crumbs::claim(&config, &plan.label);
                    let step = |oi: usize, regs: &[T; 3], ctx: &Ctx<Z>, st: &mut Vec<OpStat>, viols: &mut Vec<Violation>| {
                        let op = &ops[oi];
                        let e = (op.spec)(ctx);
                        let e = if op.panic_only { e.panic_only() } else { e };
                        let s = &mut st[oi];
                        match &e {
                            Expect::Skip => {
                                s.skipped += 1;
                                return;
                            }
                            Expect::Is(Obs::Panic) if !op.pscope => {
                                s.skipped += 1;
                                return;
                            }
                            _ => {}
                        }
                        let aux = ctx.aux;
                        let o = match catch_unwind(AssertUnwindSafe(|| (op.f)(regs, aux))) {
                            Ok(o) => o,
                            Err(_) => Obs::Panic,
                        };
                        s.transitions += 1;
                        let nt = e.nontrivial();
                        if nt {
                            s.nontrivial += 1;
                        }
                        s.classes |= 1u64 << (o.class() as u64 & 63);
                        if s.transitions <= 4096 && s.values.len() < VALUE_CAP {
                            s.values.insert(hash_str(&o.show()));
                        }
                        if (nt && s.samples.len() < 2) || s.samples.is_empty() {
                            s.samples.push(format!(
                                "{}({}, {}, {}; aux={}) -> {}",
                                op.name,
                                regs[0].hex(),
                                if op.arity >= 2 { regs[1].hex() } else { "-".into() },
                                if op.arity >= 3 { regs[2].hex() } else { "-".into() },
                                aux,
                                o.show()
                            ));
                        }
                        if !e.admits(&o) {
                            s.violations += 1;
                            if viols.len() >= 50_000 {
                                // enough examples kept; the rest are counted only (memory bound)
                                s.known += 1; // reused below as "dropped" counter of this thread
                                return;
                            }
                            viols.push(Violation {
                                config: T::type_name(),
                                op: op.name.to_string(),
                                state: vec![regs[0].hex(), regs[1].hex(), regs[2].hex()],
                                aux,
                                expected: e.show(),
                                observed: o.show(),
                                known: None,
                            });
                        }
                    };
                    loop {
                        let lo = next.fetch_add(chunk, std::sync::atomic::Ordering::Relaxed);
                        if lo >= plan.a.len() {
                            break;
                        }
                        if start.elapsed().as_secs_f64() > deadline {
                            capped = true;
                            break;
                        }
                        let hi = (lo + chunk).min(plan.a.len());
                        for ai in lo..hi {
                            let a = plan.a[ai];
                            let za: Z = a.z();
                            if !ops1.is_empty() {
                                let regs = [a, dummy, dummy];
                                let mut ctx = Ctx::new(ti, [&za, &zdummy, &zdummy], 0, debug);
                                for &oi in &ops1 {
                                    for &x in auxv(ops[oi].aux) {
                                        ctx.aux = x;
                                        crumbs::at(slot, ops[oi].name, ai, 0, 0, x);
                                        step(oi, &regs, &ctx, &mut st, &mut viols);
                                    }
                                }
                            }
                            if ops2.is_empty() && ops3.is_empty() {
                                continue;
                            }
                            for (bi, b) in plan.b.iter().enumerate() {
                                if bi & 15 == 0 && start.elapsed().as_secs_f64() > deadline {
                                    // wall-clock cap inside one row as well (slow code under test)
                                    capped = true;
                                    break;
                                }
                                let mut regs = [a, *b, dummy];
                                let mut ctx = Ctx::new(ti, [&za, &zb[bi], &zdummy], 0, debug);
                                for &oi in &ops2 {
                                    if ops[oi].heavy && bi >= plan.heavy_b_limit {
                                        continue;
                                    }
                                    for &x in auxv(ops[oi].aux) {
                                        ctx.aux = x;
                                        crumbs::at(slot, ops[oi].name, ai, bi, 0, x);
                                        step(oi, &regs, &ctx, &mut st, &mut viols);
                                    }
                                }
                                if !ops3.is_empty() {
                                    for (ci, c) in plan.c.iter().enumerate() {
                                        regs[2] = *c;
                                        for &oi in &ops3 {
                                            if ops[oi].heavy && bi >= plan.heavy_b_limit {
                                                continue;
                                            }
                                            for &x in auxv(ops[oi].aux) {
                                                ctx.with(&zc[ci], x);
                                                crumbs::at(slot, ops[oi].name, ai, bi, ci, x);
                                                step(oi, &regs, &ctx, &mut st, &mut viols);
                                            }
                                        }
                                    }
                                }
                            }
                            if viols.len() >= 50_000 || capped {
                                capped = true;
                                break;
                            }
                        }
                    }
                    crumbs::release(slot);
                    results.lock().unwrap().push((st, viols, capped));
                });
            }
        });
        // merge
        let mut cs = ConfigStat {
            config: config.clone(),
            plan: plan.label.clone(),
            states: 0,
            transitions: 0,
            nontrivial: 0,
            skipped: 0,
            ops: ops.len(),
        };
        // states: distinct (register tuple, aux) pairs offered to at least one op
        // (a heavy op sees only the first `heavy_b_limit` values of the second register)
        let mut doms: BTreeMap<(u8, Aux), usize> = BTreeMap::new();
        for o in ops {
            let nb = if o.heavy { plan.b.len().min(plan.heavy_b_limit) } else { plan.b.len() };
            let e = doms.entry((o.arity, o.aux)).or_insert(0);
            *e = (*e).max(nb);
        }
        for ((ar, ax), nb) in doms.iter() {
            let tuples = match ar {
                1 => plan.a.len() as u64,
                2 => plan.a.len() as u64 * *nb as u64,
                _ => plan.a.len() as u64 * *nb as u64 * plan.c.len() as u64,
            };
            cs.states += tuples * auxv(*ax).len() as u64;
        }
        let mut all_viols: Vec<Violation> = Vec::new();
        for (st, viols, capped) in results.into_inner().unwrap() {
            if capped {
                self.cap_hit = true;
            }
            for (i, s) in st.into_iter().enumerate() {
                // violations beyond the per-thread example cap were counted but not kept
                self.dropped_violations += s.known;
                cs.transitions += s.transitions;
                cs.nontrivial += s.nontrivial;
                cs.skipped += s.skipped;
                let g = self.ops.entry(ops[i].name.to_string()).or_default();
                g.transitions += s.transitions;
                g.nontrivial += s.nontrivial;
                g.skipped += s.skipped;
                g.classes |= s.classes;
                for v in s.values {
                    if g.values.len() < VALUE_CAP {
                        g.values.insert(v);
                    }
                }
                for smp in s.samples {
                    if g.samples.len() < 3 {
                        g.samples.push(format!("{} {}", config, smp));
                    }
                }
            }
            all_viols.extend(viols);
        }
        // deterministic order whatever the thread interleaving
        all_viols.sort_by(|x, y| (x.op.as_str(), x.state.clone(), x.aux).cmp(&(y.op.as_str(), y.state.clone(), y.aux)));
        for v in all_viols {
            self.record(v);
        }
        self.configs.push(cs);
    }

    fn replay_one<T: Subj, Z: ZNum>(&mut self, ops: &[Op<T, Z>], r: &[String]) {
        // r = [config, op, r0, r1, r2, aux]
        let Some(op) = ops.iter().find(|o| o.name == r[1]) else {
            return;
        };
        self.replay_done = true;
        let regs: [T; 3] = [T::from_le(&unhex(&r[2])), T::from_le(&unhex(&r[3])), T::from_le(&unhex(&r[4]))];
        let aux: u64 = r[5].parse().unwrap();
        let z: [Z; 3] = [regs[0].z(), regs[1].z(), regs[2].z()];
        let ctx = Ctx::new(T::ti(), [&z[0], &z[1], &z[2]], aux, self.debug);
        let e = (op.spec)(&ctx);
        let e = if op.panic_only { e.panic_only() } else { e };
        let o = match catch_unwind(AssertUnwindSafe(|| (op.f)(&regs, aux))) {
            Ok(o) => o,
            Err(_) => Obs::Panic,
        };
        println!("replay {} {} r0={} r1={} r2={} aux={}", r[0], r[1], r[2], r[3], r[4], aux);
        println!("  expected: {}", e.show());
        println!("  observed: {}", o.show());
        let skip = matches!(e, Expect::Skip) || (matches!(e, Expect::Is(Obs::Panic)) && !op.pscope);
        if !skip && !e.admits(&o) {
            println!("REPRODUCED");
        } else {
            println!("NOT-REPRODUCED");
        }
    }

    /// write the partial evidence of this profile and replay files; returns the exit code
    pub fn finish(&mut self) -> i32 {
        if self.replay.is_some() || self.locate.is_some() {
            if !self.replay_done {
                println!("replay target not found in this binary");
                return 2;
            }
            return 0;
        }
        let wall = self.start.elapsed().as_secs_f64();
        let mut states = 0u64;
        let mut transitions = 0u64;
        let mut nontrivial = 0u64;
        let mut skipped = 0u64;
        let mut cfgs = Vec::new();
        for c in &self.configs {
            states += c.states;
            transitions += c.transitions;
            nontrivial += c.nontrivial;
            skipped += c.skipped;
            cfgs.push(J::obj(vec![
                ("config", J::s(&c.config)),
                ("plan", J::s(&c.plan)),
                ("ops", J::n(c.ops as u64)),
                ("states", J::n(c.states)),
                ("transitions", J::n(c.transitions)),
                ("nontrivial", J::n(c.nontrivial)),
                ("skipped_by_precondition", J::n(c.skipped)),
            ]));
        }
        let mut opsj = Vec::new();
        let mut samples = Vec::new();
        for (name, s) in &self.ops {
            // custom engines account their transitions per op only
            opsj.push((
                name.clone(),
                J::obj(vec![
                    ("transitions", J::n(s.transitions)),
                    ("nontrivial", J::n(s.nontrivial)),
                    ("outcome_classes", J::n(s.classes.count_ones() as u64)),
                    ("distinct_outcomes_capped_64", J::n(s.values.len() as u64)),
                    ("violations", J::n(s.violations)),
                    ("known", J::n(s.known)),
                ]),
            ));
            for smp in s.samples.iter().take(2) {
                if samples.len() < 60 {
                    samples.push(J::s(smp));
                }
            }
        }
        let mut viol_list = Vec::new();
        let mut exit = 0;
        std::fs::create_dir_all(&self.replay_dir).ok();
        for v in &self.violations {
            let mut argv = vec![v.config.clone(), v.op.clone()];
            argv.extend(v.state.iter().cloned());
            argv.push(v.aux.to_string());
            let key = format!("{}|{}|{}", self.profile_name(), argv.join("|"), self.property);
            let path = format!("{}/{:016x}.json", self.replay_dir, hash_str(&key));
            let j = J::obj(vec![
                ("property", J::s(&self.property)),
                ("bin", J::s(&self.bin)),
                ("profile", J::s(&self.profile_name())),
                ("config", J::s(&v.config)),
                ("operation", J::s(&v.op)),
                ("argv", J::Arr(argv.iter().map(|a| J::s(a)).collect())),
                ("expected", J::s(&v.expected)),
                ("observed", J::s(&v.observed)),
            ]);
            std::fs::write(&path, j.to_string()).expect("cannot write replay file");
            viol_list.push(J::obj(vec![("what", J::s(&v.describe())), ("replay", J::s(&path))]));
            exit = 1;
        }
        if self.total_violations() > 0 {
            exit = 1;
        }
        let known_list: Vec<J> = self
            .known_hits
            .iter()
            .map(|(id, (n, ex))| J::obj(vec![("id", J::s(id)), ("count", J::n(*n)), ("example", J::s(ex))]))
            .collect();
        let mut top = vec![
            ("property_id", J::s(&self.property)),
            ("profile", J::s(&self.profile_name())),
            ("tier", J::s(if self.tier == Tier::Quick { "quick" } else { "thorough" })),
            ("seed", J::n(refmodel::sets::seed())),
            ("debug_assertions", J::Bool(self.debug)),
            ("states", J::n(states)),
            ("transitions", J::n(transitions)),
            ("nontrivial", J::n(nontrivial)),
            ("skipped_by_precondition", J::n(skipped)),
            ("violations", J::n(self.total_violations())),
            ("cap_hit", J::Bool(self.cap_hit)),
            ("wall_s", J::f(wall)),
            ("configs", J::Arr(cfgs)),
            ("ops", J::Obj(opsj)),
            ("samples", J::Arr(samples)),
            ("violation_list", J::Arr(viol_list)),
            ("known_list", J::Arr(known_list)),
            ("notes", J::Arr(self.notes.iter().map(|n| J::s(n)).collect())),
        ];
        let extra: Vec<(String, J)> = self.extra.iter().map(|(k, v)| (k.clone(), v.clone())).collect();
        let mut topj: Vec<(String, J)> = top.drain(..).map(|(k, v)| (k.to_string(), v)).collect();
        topj.extend(extra);
        let text = J::Obj(topj).to_string();
        match &self.out_path {
            Some(p) => std::fs::write(p, &text).expect("cannot write partial evidence"),
            None => println!("{}", text),
        }
        eprintln!(
            "[{} {}] states={} transitions={} nontrivial={} violations={} known={} cap_hit={} wall={:.1}s",
            self.property,
            self.profile_name(),
            states,
            transitions,
            nontrivial,
            self.total_violations(),
            self.known_hits.values().map(|x| x.0).sum::<u64>(),
            self.cap_hit,
            wall
        );
        exit
    }

    pub fn profile_name(&self) -> String {
        if self.debug {
            "relda".into()
        } else {
            "release".into()
        }
    }

    /// account a batch of transitions done by a custom engine
    pub fn account(&mut self, config: &str, plan: &str, op: &str, states: u64, transitions: u64, nontrivial: u64) {
        let g = self.ops.entry(op.to_string()).or_default();
        g.transitions += transitions;
        g.nontrivial += nontrivial;
        if let Some(c) = self.configs.iter_mut().find(|c| c.config == config && c.plan == plan) {
            c.states += states;
            c.transitions += transitions;
            c.nontrivial += nontrivial;
        } else {
            self.configs.push(ConfigStat {
                config: config.to_string(),
                plan: plan.to_string(),
                states,
                transitions,
                nontrivial,
                skipped: 0,
                ops: 0,
            });
        }
    }
    pub fn sample(&mut self, op: &str, s: String) {
        let g = self.ops.entry(op.to_string()).or_default();
        if g.samples.len() < 3 {
            g.samples.push(s);
        }
    }
    pub fn outcome(&mut self, op: &str, class: u8, shown: &str) {
        let g = self.ops.entry(op.to_string()).or_default();
        g.classes |= 1u64 << (class as u64 & 63);
        if g.values.len() < VALUE_CAP {
            g.values.insert(hash_str(shown));
        }
    }
}

// ---- observation constructors used by the operation tables ------------------------------
#[inline]
pub fn v<T: Subj, Z: ZNum>(x: T) -> Obs<Z> {
    Obs::V(x.z())
}
#[inline]
pub fn vf<T: Subj, Z: ZNum>(x: (T, bool)) -> Obs<Z> {
    Obs::VF(x.0.z(), x.1)
}
#[inline]
pub fn ov<T: Subj, Z: ZNum>(x: Option<T>) -> Obs<Z> {
    Obs::OV(x.map(|t| t.z()))
}
#[inline]
pub fn pr<T: Subj, Z: ZNum>(x: (T, T)) -> Obs<Z> {
    Obs::P(x.0.z(), x.1.z())
}
#[inline]
pub fn n<Z: ZNum>(x: u32) -> Obs<Z> {
    Obs::N(x as u64)
}
#[inline]
pub fn on<Z: ZNum>(x: Option<u32>) -> Obs<Z> {
    Obs::ON(x.map(|t| t as u64))
}
#[inline]
pub fn bo<Z: ZNum>(x: bool) -> Obs<Z> {
    Obs::B(x)
}
#[inline]
pub fn ord<Z: ZNum>(x: std::cmp::Ordering) -> Obs<Z> {
    Obs::Ord(ord_code(x))
}
#[inline]
pub fn oord<Z: ZNum>(x: Option<std::cmp::Ordering>) -> Obs<Z> {
    Obs::OOrd(x.map(ord_code))
}

/// Build an `Op`: op!(name, arity, aux-domain, spec-fn, |r, x| observation)
#[macro_export]
macro_rules! op {
    ($name:expr, $arity:expr, $aux:expr, $spec:path, |$r:ident, $x:ident| $body:expr) => {
        $crate::engine::Op { name: $name, arity: $arity, aux: $aux, f: |$r, $x| $body, spec: $spec, pscope: true, heavy: false, panic_only: false }
    };
}
/// Same, but expected panics are outside the property's statement (such states are skipped)
#[macro_export]
macro_rules! opn {
    ($name:expr, $arity:expr, $aux:expr, $spec:path, |$r:ident, $x:ident| $body:expr) => {
        $crate::engine::Op { name: $name, arity: $arity, aux: $aux, f: |$r, $x| $body, spec: $spec, pscope: false, heavy: false, panic_only: false }
    };
}

/// Same as op!, for operations that panic on a large share of states (strict_* forms, operators
/// in debug builds): explored against a bounded second-register set on the very large plans.
#[macro_export]
macro_rules! oph {
    ($name:expr, $arity:expr, $aux:expr, $spec:path, |$r:ident, $x:ident| $body:expr) => {
        $crate::engine::Op { name: $name, arity: $arity, aux: $aux, f: |$r, $x| $body, spec: $spec, pscope: true, heavy: true, panic_only: false }
    };
}

/// primitive integer types usable as a shift amount
pub trait ShiftRhs: Sized + Copy {
    const MIN_MAG: u128;
    const MAX: u128;
    const K: u8;
    fn from_amt(a: refmodel::sets::Amt) -> Self;
}
macro_rules! shift_rhs {
    ($($t:ty, $k:expr);*) => {$(
        impl ShiftRhs for $t {
            const MIN_MAG: u128 = (<$t>::MIN as i128).unsigned_abs();
            const MAX: u128 = <$t>::MAX as u128;
            const K: u8 = $k;
            fn from_amt(a: refmodel::sets::Amt) -> Self {
                if a.neg { (a.mag as i128).wrapping_neg() as $t } else { a.mag as $t }
            }
        }
    )*};
}
shift_rhs!(u8, 0; u16, 1; u32, 2; u64, 3; u128, 4; usize, 5; i8, 6; i16, 7; i32, 8; i64, 9; i128, 10; isize, 11);

/// aux domain (indices into `shift_candidates(bits)`) of the amounts representable in R
pub fn typed_shift_domain<R: ShiftRhs>(bits: u32) -> Vec<u64> {
    refmodel::sets::shift_candidates(bits)
        .iter()
        .enumerate()
        .filter(|(_, a)| a.fits(R::MIN_MAG, R::MAX))
        .map(|(i, _)| i as u64)
        .collect()
}

impl<T: Subj> Plan<T> {
    /// add the twelve typed shift-amount domains (Aux::K(0..12))
    pub fn with_typed_shifts(self) -> Self {
        let b = T::BITS;
        self.with_aux(Aux::K(0), typed_shift_domain::<u8>(b))
            .with_aux(Aux::K(1), typed_shift_domain::<u16>(b))
            .with_aux(Aux::K(2), typed_shift_domain::<u32>(b))
            .with_aux(Aux::K(3), typed_shift_domain::<u64>(b))
            .with_aux(Aux::K(4), typed_shift_domain::<u128>(b))
            .with_aux(Aux::K(5), typed_shift_domain::<usize>(b))
            .with_aux(Aux::K(6), typed_shift_domain::<i8>(b))
            .with_aux(Aux::K(7), typed_shift_domain::<i16>(b))
            .with_aux(Aux::K(8), typed_shift_domain::<i32>(b))
            .with_aux(Aux::K(9), typed_shift_domain::<i64>(b))
            .with_aux(Aux::K(10), typed_shift_domain::<i128>(b))
            .with_aux(Aux::K(11), typed_shift_domain::<isize>(b))
    }
}

/// Same as op!, comparing panic / no-panic only.
#[macro_export]
macro_rules! opp {
    ($name:expr, $arity:expr, $aux:expr, $spec:path, |$r:ident, $x:ident| $body:expr) => {
        $crate::engine::Op { name: $name, arity: $arity, aux: $aux, f: |$r, $x| $body, spec: $spec, pscope: true, heavy: false, panic_only: true }
    };
}

/// Statistics of a custom engine (casts, strings, floats, ...), accumulated per thread and merged
/// into the run with `Run::merge`.
#[derive(Default)]
pub struct Local {
    pub transitions: u64,
    pub nontrivial: u64,
    pub classes: u64,
    pub values: HashSet<u64>,
    pub samples: Vec<String>,
    pub viols: Vec<Violation>,
    /// breadcrumb slot of the worker thread and the text it points at
    pub slot: Option<usize>,
    pub crumb: String,
}

impl Local {
    /// announce the transition that is about to be executed on the implementation, so that a crash
    /// or hang inside it can be attributed (the text is what `--replay` takes)
    #[inline]
    pub fn enter(&mut self, config: &str, op: &str, state: impl Fn() -> Vec<String>, aux: u64) {
        if self.slot.is_none() {
            return;
        }
        self.crumb.clear();
        self.crumb.push_str(config);
        self.crumb.push('\x1f');
        self.crumb.push_str(op);
        for t in state() {
            self.crumb.push('\x1f');
            self.crumb.push_str(&t);
        }
        self.crumb.push('\x1f');
        self.crumb.push_str(&aux.to_string());
        crumbs::at_text(self.slot, &self.crumb);
    }
    /// compare one transition with its expectation
    #[inline]
    pub fn check<Z: ZNum>(&mut self, config: &str, op: &str, state: impl Fn() -> Vec<String>, aux: u64, e: &Expect<Z>, o: &Obs<Z>) {
        if matches!(e, Expect::Skip) {
            return;
        }
        self.transitions += 1;
        let nt = e.nontrivial();
        if nt {
            self.nontrivial += 1;
        }
        self.classes |= 1u64 << (o.class() as u64 & 63);
        if self.transitions <= 2048 && self.values.len() < VALUE_CAP {
            self.values.insert(hash_str(&o.show()));
        }
        if (nt && self.samples.len() < 3) || self.samples.is_empty() {
            self.samples.push(format!("{} {}({}; aux={}) -> {}", config, op, state().join(", "), aux, o.show()));
        }
        if !e.admits(o) && self.viols.len() < 100_000 {
            self.viols.push(Violation {
                config: config.to_string(),
                op: op.to_string(),
                state: state(),
                aux,
                expected: e.show(),
                observed: o.show(),
                known: None,
            });
        }
    }
    pub fn absorb(&mut self, o: Local) {
        self.transitions += o.transitions;
        self.nontrivial += o.nontrivial;
        self.classes |= o.classes;
        for v in o.values {
            if self.values.len() < VALUE_CAP {
                self.values.insert(v);
            }
        }
        for s in o.samples {
            if self.samples.len() < 3 {
                self.samples.push(s);
            }
        }
        self.viols.extend(o.viols);
    }
}

impl Run {
    /// merge the statistics of a custom engine for one (config, plan, op)
    pub fn merge(&mut self, config: &str, plan: &str, op: &str, states: u64, l: Local) {
        self.account(config, plan, op, states, l.transitions, l.nontrivial);
        {
            let g = self.ops.entry(op.to_string()).or_default();
            g.classes |= l.classes;
            for v in l.values {
                if g.values.len() < VALUE_CAP {
                    g.values.insert(v);
                }
            }
            for s in l.samples {
                if g.samples.len() < 3 {
                    g.samples.push(s);
                }
            }
        }
        let mut viols = l.viols;
        viols.sort_by(|x, y| (x.state.clone(), x.aux).cmp(&(y.state.clone(), y.aux)));
        for v in viols {
            self.record(v);
        }
    }
    /// in replay mode: the recorded state if (config, op) is the replay target
    pub fn replay_target(&mut self, config: &str, op: &str) -> Option<(Vec<String>, u64)> {
        let r = self.replay.as_ref()?;
        if r.len() >= 3 && r[0] == config && r[1] == op {
            let aux = r[r.len() - 1].parse().unwrap_or(0);
            let st = r[2..r.len() - 1].to_vec();
            self.replay_done = true;
            Some((st, aux))
        } else {
            None
        }
    }
    pub fn in_replay(&self) -> bool {
        self.replay.is_some() || self.locate.is_some()
    }
    /// print the verdict of a replayed custom transition
    pub fn replay_verdict<Z: ZNum>(&self, e: &Expect<Z>, o: &Obs<Z>) {
        println!("  expected: {}", e.show());
        println!("  observed: {}", o.show());
        if !matches!(e, Expect::Skip) && !e.admits(o) {
            println!("REPRODUCED");
        } else {
            println!("NOT-REPRODUCED");
        }
    }
}

/// run `f(chunk_index, lo, hi)` over 0..n on all threads, merging the per-thread `Local`s
pub fn par_chunks(threads: usize, n: usize, f: impl Fn(usize, usize, &mut Local) + Sync) -> Local {
    let out = Mutex::new(Local::default());
    let next = std::sync::atomic::AtomicUsize::new(0);
    let chunk = (n / (threads.max(1) * 8)).max(1);
    std::thread::scope(|s| {
        for _ in 0..threads.max(1).min(n.max(1)) {
            s.spawn(|| {
                let mut l = Local::default();
                l.slot = crumbs::claim("custom", "custom");
                loop {
                    let lo = next.fetch_add(chunk, std::sync::atomic::Ordering::Relaxed);
                    if lo >= n {
                        break;
                    }
                    f(lo, (lo + chunk).min(n), &mut l);
                }
                crumbs::release(l.slot);
                l.slot = None;
                out.lock().unwrap().absorb(l);
            });
        }
    });
    out.into_inner().unwrap()
}

impl Run {
    /// Differential exploration (C16): the same operation table instantiated for two representations
    /// A and B of the same width, run from the same byte images; every observation must be identical.
    /// No reference model is involved.
    pub fn explore_diff<A: Subj, B: Subj, Z: ZNum>(&mut self, ops_a: &[Op<A, Z>], ops_b: &[Op<B, Z>], plan: &Plan<A>) {
        assert_eq!(A::BITS, B::BITS);
        self.explore_diff_ext(ops_a, ops_b, plan, None)
    }

    /// Widening form of the differential exploration: B is wider than A, operands are extended with
    /// `ext` (the real cast); an operation that returns Some(v) / a value in A must return the same in
    /// B, and where A returns None the result in B must be None or lie outside A's range.
    pub fn explore_widen<A: Subj, B: Subj, Z: ZNum>(&mut self, ops_a: &[Op<A, Z>], ops_b: &[Op<B, Z>], plan: &Plan<A>, ext: fn(&A) -> B) {
        assert!(A::BITS < B::BITS && A::SIGNED == B::SIGNED);
        self.explore_diff_ext(ops_a, ops_b, plan, Some(ext))
    }

    fn explore_diff_ext<A: Subj, B: Subj, Z: ZNum>(&mut self, ops_a: &[Op<A, Z>], ops_b: &[Op<B, Z>], plan: &Plan<A>, ext: Option<fn(&A) -> B>) {
        assert_eq!(ops_a.len(), ops_b.len());
        let widen = ext.is_some();
        let conv = |a: &A| -> B {
            match ext {
                Some(f) => f(a),
                None => B::from_le(&a.le()),
            }
        };
        let narrow = A::ti();
        let expectation = |ob: Obs<Z>, oa: &Obs<Z>| -> Expect<Z> {
            if widen {
                if let (Obs::OV(None), Obs::OV(Some(w))) = (oa, &ob) {
                    if !narrow.fits(w) {
                        return Expect::Is(Obs::OV(None));
                    }
                }
            }
            Expect::Is(ob)
        };
        let config = format!("{}{}{}", A::type_name(), if widen { "=>" } else { "~" }, B::type_name());
        let run_op = |i: usize, ra: &[A; 3], rb: &[B; 3], aux: u64| -> (Obs<Z>, Obs<Z>) {
            let oa = match catch_unwind(AssertUnwindSafe(|| (ops_a[i].f)(ra, aux))) {
                Ok(o) => o,
                Err(_) => Obs::Panic,
            };
            let ob = match catch_unwind(AssertUnwindSafe(|| (ops_b[i].f)(rb, aux))) {
                Ok(o) => o,
                Err(_) => Obs::Panic,
            };
            (oa, ob)
        };
        if self.replay.is_some() {
            for i in 0..ops_a.len() {
                if let Some((st, aux)) = self.replay_target(&config, ops_a[i].name) {
                    let ra: [A; 3] = [A::from_le(&unhex(&st[0])), A::from_le(&unhex(&st[1])), A::from_le(&unhex(&st[2]))];
                    let rb: [B; 3] = [conv(&ra[0]), conv(&ra[1]), conv(&ra[2])];
                    let (oa, ob) = run_op(i, &ra, &rb, aux);
                    println!("replay {} {} {:?} aux={}", config, ops_a[i].name, st, aux);
                    self.replay_verdict(&expectation(ob, &oa), &oa);
                    return;
                }
            }
            return;
        }
        if let Some(lc) = self.locate.clone() {
            // --locate config plan op ai bi ci aux: the registers of that transition (crash / hang attribution)
            if lc.len() >= 7 && lc[0] == config && lc[1] == plan.label && !plan.a.is_empty() {
                let idx = |k: &str| -> usize { k.parse().unwrap_or(0) };
                let a = plan.a.get(idx(&lc[3])).unwrap_or(&plan.a[0]);
                let b = plan.b.get(idx(&lc[4])).unwrap_or(a);
                let c = plan.c.get(idx(&lc[5])).unwrap_or(a);
                let arity = ops_a.iter().find(|o| o.name == lc[2]).map(|o| o.arity).unwrap_or(2);
                let (r1, r2) = match arity {
                    1 => (a, a),
                    2 => (b, a),
                    _ => (b, c),
                };
                println!("LOCATED|{}|{}|{}|{}|{}|{}", config, lc[2], a.hex(), r1.hex(), r2.hex(), lc[6]);
                self.replay_done = true;
            }
            return;
        }
        if !self.wants_prefix(&config) {
            return;
        }
        if self.over_deadline() {
            self.cap_hit = true;
            return;
        }
        for o in ops_a {
            assert!(plan.aux.contains_key(&o.aux), "plan lacks aux domain {:?}", o.aux);
        }
        let pb: Vec<B> = plan.b.iter().map(|x| conv(x)).collect();
        let pc: Vec<B> = plan.c.iter().map(|x| conv(x)).collect();
        let cfg = config.clone();
        let (start, deadline) = (self.start, self.deadline_s);
        let capped = std::sync::atomic::AtomicBool::new(false);
        let l = par_chunks(self.threads, plan.a.len(), |lo, hi, l| {
            crumbs::relabel(l.slot, &cfg, &plan.label);
            for ai in lo..hi {
                if start.elapsed().as_secs_f64() > deadline {
                    // wall-clock cap (slow code under test): stop cleanly, the evidence says so
                    capped.store(true, std::sync::atomic::Ordering::Relaxed);
                    break;
                }
                let a = plan.a[ai];
                let a2 = conv(&a);
                let step = |i: usize, bi: usize, ci: usize, ra: &[A; 3], rb: &[B; 3], aux: u64, l: &mut Local| {
                    crumbs::at(l.slot, ops_a[i].name, ai, bi, ci, aux);
                    let (oa, ob) = run_op(i, ra, rb, aux);
                    let e = expectation(ob, &oa);
                    l.check(&cfg, ops_a[i].name, || vec![ra[0].hex(), ra[1].hex(), ra[2].hex()], aux, &e, &oa);
                };
                for i in 0..ops_a.len() {
                    let op = &ops_a[i];
                    let auxs = &plan.aux[&op.aux];
                    match op.arity {
                        1 => {
                            for &x in auxs {
                                step(i, 0, 0, &[a, a, a], &[a2, a2, a2], x, l);
                            }
                        }
                        2 => {
                            for (bi, b) in plan.b.iter().enumerate() {
                                if op.heavy && bi >= plan.heavy_b_limit {
                                    break;
                                }
                                for &x in auxs {
                                    step(i, bi, 0, &[a, *b, a], &[a2, pb[bi], a2], x, l);
                                }
                            }
                        }
                        _ => {
                            for (bi, b) in plan.b.iter().enumerate() {
                                for (ci, c) in plan.c.iter().enumerate() {
                                    for &x in auxs {
                                        step(i, bi, ci, &[a, *b, *c], &[a2, pb[bi], pc[ci]], x, l);
                                    }
                                }
                            }
                        }
                    }
                }
            }
        });
        if capped.load(std::sync::atomic::Ordering::Relaxed) {
            self.cap_hit = true;
        }
        let states = plan.a.len() as u64 * (1 + plan.b.len() as u64);
        self.merge(&config, &plan.label, if widen { "widening commutes (table operations)" } else { "differential (all table operations)" }, states, l);
    }
}

/// Differential observation: evaluate a trait form and the inherent reference form, each under
/// catch_unwind; B(true) when outcome (value or panic) is identical, a description otherwise.
pub fn same<Z: ZNum>(a: &dyn Fn() -> Obs<Z>, b: &dyn Fn() -> Obs<Z>) -> Obs<Z> {
    let oa = match catch_unwind(AssertUnwindSafe(a)) {
        Ok(o) => o,
        Err(_) => Obs::Panic,
    };
    let ob = match catch_unwind(AssertUnwindSafe(b)) {
        Ok(o) => o,
        Err(_) => Obs::Panic,
    };
    if oa == ob {
        Obs::B(true)
    } else {
        Obs::S(format!("trait form gives {} but the inherent form gives {}", oa.show(), ob.show()))
    }
}

/// Closure pass ("start from non-initial states"): the values the MODEL produces from the plan's
/// initial states (results of every value-returning operation of the table), as new register contents.
/// Deduplicated on the byte image; bounded by `cap` (evenly thinned in sorted order, so the choice is
/// deterministic).  Returns (values not already in the plan, number found before thinning).
pub fn closure_values<T: Subj, Z: ZNum>(ops: &[Op<T, Z>], plan: &Plan<T>, pairs_side: usize, cap: usize) -> (Vec<Vec<u8>>, usize) {
    let ti = T::ti();
    let nb = T::bytes();
    let mut seen: HashSet<Vec<u8>> = HashSet::new();
    let initial: HashSet<Vec<u8>> = plan.a.iter().map(|x| x.le()).collect();
    let za: Vec<Z> = plan.a.iter().take(pairs_side).map(|x| x.z()).collect();
    let zb: Vec<Z> = plan.b.iter().take(pairs_side).map(|x| x.z()).collect();
    let zero = Z::zi(0);
    let mut add = |z: &Z| {
        let b = ti.wrap(z).to_le_bytes_wrapped(nb);
        if !initial.contains(&b) {
            seen.insert(b);
        }
    };
    let empty = vec![0u64];
    for a in &za {
        for b in &zb {
            let mut ctx = Ctx::new(ti, [a, b, &zero], 0, false);
            for op in ops {
                if op.arity > 2 {
                    continue;
                }
                let auxs = plan.aux.get(&op.aux).unwrap_or(&empty);
                for &x in auxs.iter().take(8) {
                    ctx.aux = x;
                    match (op.spec)(&ctx) {
                        Expect::Is(Obs::V(z)) | Expect::Is(Obs::VF(z, _)) | Expect::Is(Obs::OV(Some(z))) => add(&z),
                        Expect::Is(Obs::P(z1, z2)) => {
                            add(&z1);
                            add(&z2);
                        }
                        _ => {}
                    }
                }
            }
        }
    }
    let found = seen.len();
    let mut v: Vec<Vec<u8>> = seen.into_iter().collect();
    v.sort();
    if v.len() > cap {
        let step = v.len() as f64 / cap as f64;
        v = (0..cap).map(|i| v[(i as f64 * step) as usize].clone()).collect();
    }
    (v, found)
}

// =============================================================================================
// Breadcrumbs: where each worker thread currently is, so that a crash that cannot be caught (a
// non-unwinding panic aborts the process, a stack overflow, an illegal instruction) or a hang inside
// the code under test is attributed to one transition instead of being lost as a machinery error.
// =============================================================================================
pub mod crumbs {
    use std::sync::atomic::{AtomicBool, AtomicU64, AtomicUsize, Ordering::Relaxed};

    pub const SLOTS: usize = 64;
    pub struct Slot {
        pub busy: AtomicBool,
        pub cfg_ptr: AtomicUsize,
        pub cfg_len: AtomicUsize,
        pub plan_ptr: AtomicUsize,
        pub plan_len: AtomicUsize,
        pub op_ptr: AtomicUsize,
        pub op_len: AtomicUsize,
        pub ai: AtomicU64,
        pub bi: AtomicU64,
        pub ci: AtomicU64,
        pub aux: AtomicU64,
        pub tick: AtomicU64,
        /// the slot describes a custom-engine transition: cfg_ptr/cfg_len point at a text
        /// "config\x1fop\x1ftoken...\x1faux" owned by the worker's `Local`
        pub custom: AtomicBool,
    }
    #[allow(clippy::declare_interior_mutable_const)]
    const EMPTY: Slot = Slot {
        busy: AtomicBool::new(false),
        cfg_ptr: AtomicUsize::new(0),
        cfg_len: AtomicUsize::new(0),
        plan_ptr: AtomicUsize::new(0),
        plan_len: AtomicUsize::new(0),
        op_ptr: AtomicUsize::new(0),
        op_len: AtomicUsize::new(0),
        ai: AtomicU64::new(0),
        bi: AtomicU64::new(0),
        ci: AtomicU64::new(0),
        aux: AtomicU64::new(0),
        tick: AtomicU64::new(0),
        custom: AtomicBool::new(false),
    };
    pub static TABLE: [Slot; SLOTS] = [EMPTY; SLOTS];
    thread_local! {
        /// the slot of the calling thread (const-initialised, no destructor: a plain TLS read, usable
        /// from the signal handler, which runs on the thread that raised the signal)
        static MINE: std::cell::Cell<usize> = const { std::cell::Cell::new(usize::MAX) };
    }

    /// claim a slot for the calling worker thread
    pub fn claim(cfg: &str, plan: &str) -> Option<usize> {
        for (i, s) in TABLE.iter().enumerate() {
            if s.busy.compare_exchange(false, true, Relaxed, Relaxed).is_ok() {
                s.cfg_ptr.store(cfg.as_ptr() as usize, Relaxed);
                s.cfg_len.store(cfg.len(), Relaxed);
                s.plan_ptr.store(plan.as_ptr() as usize, Relaxed);
                s.plan_len.store(plan.len(), Relaxed);
                s.op_len.store(0, Relaxed);
                s.custom.store(false, Relaxed);
                MINE.with(|m| m.set(i));
                return Some(i);
            }
        }
        None
    }
    pub fn release(i: Option<usize>) {
        if let Some(i) = i {
            TABLE[i].op_len.store(0, Relaxed);
            TABLE[i].busy.store(false, Relaxed);
            MINE.with(|m| m.set(usize::MAX));
        }
    }
    #[inline]
    pub fn at(i: Option<usize>, op: &'static str, ai: usize, bi: usize, ci: usize, aux: u64) {
        if let Some(i) = i {
            let s = &TABLE[i];
            s.op_ptr.store(op.as_ptr() as usize, Relaxed);
            s.op_len.store(op.len(), Relaxed);
            s.ai.store(ai as u64, Relaxed);
            s.bi.store(bi as u64, Relaxed);
            s.ci.store(ci as u64, Relaxed);
            s.aux.store(aux, Relaxed);
            s.tick.fetch_add(1, Relaxed);
        }
    }

    /// give a slot claimed by `par_chunks` the configuration / plan names of an index-based explorer
    pub fn relabel(i: Option<usize>, cfg: &str, plan: &str) {
        if let Some(i) = i {
            let s = &TABLE[i];
            s.cfg_ptr.store(cfg.as_ptr() as usize, Relaxed);
            s.cfg_len.store(cfg.len(), Relaxed);
            s.plan_ptr.store(plan.as_ptr() as usize, Relaxed);
            s.plan_len.store(plan.len(), Relaxed);
            s.custom.store(false, Relaxed);
        }
    }

    /// custom engines: publish the text describing the transition about to be executed
    #[inline]
    pub fn at_text(i: Option<usize>, text: &str) {
        if let Some(i) = i {
            let s = &TABLE[i];
            s.cfg_ptr.store(text.as_ptr() as usize, Relaxed);
            s.cfg_len.store(text.len(), Relaxed);
            s.custom.store(true, Relaxed);
            s.op_len.store(1, Relaxed);
            s.tick.fetch_add(1, Relaxed);
        }
    }

    /// glibc `struct sigaction` on x86-64 Linux
    #[repr(C)]
    struct SigAction {
        handler: usize,
        mask: [u64; 16],
        flags: i32,
        restorer: usize,
    }
    const SA_ONSTACK: i32 = 0x0800_0000;
    extern "C" {
        fn sigaction(signum: i32, act: *const SigAction, old: *mut SigAction) -> i32;
        fn write(fd: i32, buf: *const u8, count: usize) -> isize;
        fn _exit(status: i32) -> !;
    }

    fn put(buf: &mut [u8], n: &mut usize, bytes: &[u8]) {
        for &b in bytes {
            if *n < buf.len() {
                buf[*n] = if b == b'\n' { b' ' } else { b };
                *n += 1;
            }
        }
    }
    fn put_num(buf: &mut [u8], n: &mut usize, mut v: u64) {
        let mut tmp = [0u8; 20];
        let mut k = 0;
        if v == 0 {
            tmp[0] = b'0';
            k = 1;
        }
        while v > 0 {
            tmp[k] = b'0' + (v % 10) as u8;
            v /= 10;
            k += 1;
        }
        for i in (0..k).rev() {
            put(buf, n, &tmp[i..i + 1]);
        }
    }
    /// print one line per busy slot (async-signal-safe: no allocation, no locks)
    pub fn dump(tag: &[u8], only: Option<usize>) {
        for (i, s) in TABLE.iter().enumerate() {
            if !s.busy.load(Relaxed) || s.op_len.load(Relaxed) == 0 {
                continue;
            }
            if let Some(o) = only {
                if o != i {
                    continue;
                }
            }
            // a static buffer: the handler may be running on the (small) alternate signal stack, and the state
            // of an 8192-bit transition is several thousand characters long
            static mut DUMP_BUF: [u8; 24576] = [0u8; 24576];
            #[allow(static_mut_refs)]
            let buf: &mut [u8] = unsafe { &mut DUMP_BUF[..] };
            let mut n = 0usize;
            put(buf, &mut n, tag);
            if s.custom.load(Relaxed) {
                put(buf, &mut n, b"-STATE|");
                let (p, l) = (s.cfg_ptr.load(Relaxed), s.cfg_len.load(Relaxed));
                if p != 0 && l < 24000 {
                    let sl = unsafe { core::slice::from_raw_parts(p as *const u8, l) };
                    for &b in sl {
                        put(buf, &mut n, if b == 0x1f { b"|" } else { core::slice::from_ref(&b) });
                    }
                }
                if n < buf.len() {
                    buf[n] = b'\n';
                    n += 1;
                }
                unsafe {
                    write(2, buf.as_ptr(), n);
                }
                continue;
            }
            for (p, l) in [(&s.cfg_ptr, &s.cfg_len), (&s.plan_ptr, &s.plan_len), (&s.op_ptr, &s.op_len)] {
                put(buf, &mut n, b"|");
                let (p, l) = (p.load(Relaxed), l.load(Relaxed));
                if p != 0 && l < 400 {
                    let sl = unsafe { core::slice::from_raw_parts(p as *const u8, l) };
                    put(buf, &mut n, sl);
                }
            }
            for v in [&s.ai, &s.bi, &s.ci, &s.aux] {
                put(buf, &mut n, b"|");
                put_num(buf, &mut n, v.load(Relaxed));
            }
            if n < buf.len() {
                buf[n] = b'\n';
                n += 1;
            }
            unsafe {
                write(2, buf.as_ptr(), n);
            }
        }
    }
    static DUMPING: std::sync::atomic::AtomicBool = std::sync::atomic::AtomicBool::new(false);
    extern "C" fn on_signal(_sig: i32) {
        // one dump only: a second crashing thread waits for the first one's _exit
        if DUMPING.swap(true, Relaxed) {
            loop {
                std::hint::spin_loop();
            }
        }
        let mine = MINE.with(|m| m.get());
        if mine != usize::MAX {
            dump(b"CRASH-AT", Some(mine));
        } else {
            dump(b"CRASH-AT", None);
        }
        unsafe { _exit(70) }
    }
    /// install the crash handlers and start the hang watchdog
    pub fn install(hang_after_s: u64) {
        unsafe {
            // SA_ONSTACK: a stack overflow in the code under test (SIGSEGV on the guard page) must be handled
            // on the alternate signal stack that std gives every thread, or the handler itself would fault
            for sig in [6, 4, 7, 8, 11] {
                let act = SigAction { handler: on_signal as usize, mask: [0; 16], flags: SA_ONSTACK, restorer: 0 };
                sigaction(sig, &act, core::ptr::null_mut());
            }
        }
        std::thread::spawn(move || {
            let mut last: Vec<(u64, std::time::Instant)> = (0..SLOTS).map(|_| (0, std::time::Instant::now())).collect();
            loop {
                std::thread::sleep(std::time::Duration::from_secs(2));
                for (i, s) in TABLE.iter().enumerate() {
                    let t = s.tick.load(Relaxed);
                    if !s.busy.load(Relaxed) || s.op_len.load(Relaxed) == 0 || t != last[i].0 {
                        last[i] = (t, std::time::Instant::now());
                        continue;
                    }
                    if last[i].1.elapsed().as_secs() >= hang_after_s {
                        dump(b"HANG-AT", Some(i));
                        unsafe { _exit(71) }
                    }
                }
            }
        });
    }
}

/// A Hasher that records the byte stream it is fed (C07: equal values must feed identical streams)
#[derive(Default)]
pub struct RecordingHasher {
    pub bytes: Vec<u8>,
}
impl std::hash::Hasher for RecordingHasher {
    fn finish(&self) -> u64 {
        let mut h: u64 = 0xcbf29ce484222325;
        for b in &self.bytes {
            h ^= *b as u64;
            h = h.wrapping_mul(0x100000001b3);
        }
        h
    }
    fn write(&mut self, bytes: &[u8]) {
        self.bytes.extend_from_slice(bytes);
    }
}
pub fn hash_stream<T: std::hash::Hash>(x: &T) -> Vec<u8> {
    let mut h = RecordingHasher::default();
    x.hash(&mut h);
    h.bytes
}

//! Model self-check: the spec functions are run against Rust's primitive integers (an independent
//! implementation of the same contracts) with the same explorer that is used on bnum.  A
//! disagreement here is a machinery failure (exit 2), never a verdict about bnum.

use crate::engine::*;
use crate::engine::{Aux, Op, Plan, Run, Subj};
use crate::op;
use refmodel::sets::{self, Tier};
use refmodel::spec;
use refmodel::znum::*;
use refmodel::BigRef;

#[derive(Clone, Copy, PartialEq, Debug)]
pub struct P<T>(pub T);

macro_rules! prim_subj {
    ($t:ty, $u:ty, $bits:expr, $signed:expr, $n:expr, $db:expr) => {
        impl Subj for P<$t> {
            const BITS: u32 = $bits;
            const SIGNED: bool = $signed;
            const DIGIT_BITS: u32 = $db;
            const N: usize = $n;
            fn type_name() -> String {
                stringify!($t).to_string()
            }
            fn from_le(b: &[u8]) -> Self {
                let mut a = [0u8; $bits / 8];
                a.copy_from_slice(b);
                P(<$t>::from_le_bytes(a))
            }
            fn digit(&self, i: usize) -> u64 {
                ((self.0 as $u) >> ((i as u32 * $db) % $bits)) as u64
            }
        }
    };
}
prim_subj!(u8, u8, 8, false, 1, 8);
prim_subj!(i8, u8, 8, true, 1, 8);
prim_subj!(u16, u16, 16, false, 1, 16);
prim_subj!(i16, u16, 16, true, 1, 16);
prim_subj!(u32, u32, 32, false, 1, 32);
prim_subj!(i32, u32, 32, true, 1, 32);
prim_subj!(u64, u64, 64, false, 1, 64);
prim_subj!(i64, u64, 64, true, 1, 64);
prim_subj!(u128, u128, 128, false, 2, 64);
prim_subj!(i128, u128, 128, true, 2, 64);

macro_rules! common_ops {
    ($t:ty, $v:ident) => {
        let tmp: Vec<Op<P<$t>, Z>> = vec![
            op!("overflowing_add", 2, Aux::None, spec::overflowing_add, |r, _x| { let (a, f) = r[0].0.overflowing_add(r[1].0); vf((P(a), f)) }),
            op!("checked_add", 2, Aux::None, spec::checked_add, |r, _x| ov(r[0].0.checked_add(r[1].0).map(P))),
            op!("wrapping_add", 2, Aux::None, spec::wrapping_add, |r, _x| v(P(r[0].0.wrapping_add(r[1].0)))),
            op!("saturating_add", 2, Aux::None, spec::saturating_add, |r, _x| v(P(r[0].0.saturating_add(r[1].0)))),
            op!("strict_add", 2, Aux::None, spec::strict_add, |r, _x| v(P(r[0].0.strict_add(r[1].0)))),
            op!("add", 2, Aux::None, spec::add, |r, _x| v(P(r[0].0 + r[1].0))),
            op!("overflowing_sub", 2, Aux::None, spec::overflowing_sub, |r, _x| { let (a, f) = r[0].0.overflowing_sub(r[1].0); vf((P(a), f)) }),
            op!("checked_sub", 2, Aux::None, spec::checked_sub, |r, _x| ov(r[0].0.checked_sub(r[1].0).map(P))),
            op!("wrapping_sub", 2, Aux::None, spec::wrapping_sub, |r, _x| v(P(r[0].0.wrapping_sub(r[1].0)))),
            op!("saturating_sub", 2, Aux::None, spec::saturating_sub, |r, _x| v(P(r[0].0.saturating_sub(r[1].0)))),
            op!("strict_sub", 2, Aux::None, spec::strict_sub, |r, _x| v(P(r[0].0.strict_sub(r[1].0)))),
            op!("sub", 2, Aux::None, spec::sub, |r, _x| v(P(r[0].0 - r[1].0))),
            op!("overflowing_neg", 1, Aux::None, spec::overflowing_neg, |r, _x| { let (a, f) = r[0].0.overflowing_neg(); vf((P(a), f)) }),
            op!("checked_neg", 1, Aux::None, spec::checked_neg, |r, _x| ov(r[0].0.checked_neg().map(P))),
            op!("wrapping_neg", 1, Aux::None, spec::wrapping_neg, |r, _x| v(P(r[0].0.wrapping_neg()))),
            op!("strict_neg", 1, Aux::None, spec::strict_neg, |r, _x| v(P(r[0].0.strict_neg()))),
            op!("midpoint", 2, Aux::None, spec::midpoint, |r, _x| v(P(r[0].0.midpoint(r[1].0)))),
            op!("overflowing_mul", 2, Aux::None, spec::overflowing_mul, |r, _x| { let (a, f) = r[0].0.overflowing_mul(r[1].0); vf((P(a), f)) }),
            op!("checked_mul", 2, Aux::None, spec::checked_mul, |r, _x| ov(r[0].0.checked_mul(r[1].0).map(P))),
            op!("wrapping_mul", 2, Aux::None, spec::wrapping_mul, |r, _x| v(P(r[0].0.wrapping_mul(r[1].0)))),
            op!("saturating_mul", 2, Aux::None, spec::saturating_mul, |r, _x| v(P(r[0].0.saturating_mul(r[1].0)))),
            op!("strict_mul", 2, Aux::None, spec::strict_mul, |r, _x| v(P(r[0].0.strict_mul(r[1].0)))),
            op!("mul", 2, Aux::None, spec::mul, |r, _x| v(P(r[0].0 * r[1].0))),
            // division family
            op!("div", 2, Aux::None, spec::div, |r, _x| v(P(r[0].0 / r[1].0))),
            op!("rem", 2, Aux::None, spec::rem, |r, _x| v(P(r[0].0 % r[1].0))),
            op!("checked_div", 2, Aux::None, spec::checked_div, |r, _x| ov(r[0].0.checked_div(r[1].0).map(P))),
            op!("checked_rem", 2, Aux::None, spec::checked_rem, |r, _x| ov(r[0].0.checked_rem(r[1].0).map(P))),
            op!("checked_div_euclid", 2, Aux::None, spec::checked_div_euclid, |r, _x| ov(r[0].0.checked_div_euclid(r[1].0).map(P))),
            op!("checked_rem_euclid", 2, Aux::None, spec::checked_rem_euclid, |r, _x| ov(r[0].0.checked_rem_euclid(r[1].0).map(P))),
            op!("wrapping_div", 2, Aux::None, spec::wrapping_div, |r, _x| v(P(r[0].0.wrapping_div(r[1].0)))),
            op!("wrapping_rem", 2, Aux::None, spec::wrapping_rem, |r, _x| v(P(r[0].0.wrapping_rem(r[1].0)))),
            op!("wrapping_div_euclid", 2, Aux::None, spec::wrapping_div_euclid, |r, _x| v(P(r[0].0.wrapping_div_euclid(r[1].0)))),
            op!("wrapping_rem_euclid", 2, Aux::None, spec::wrapping_rem_euclid, |r, _x| v(P(r[0].0.wrapping_rem_euclid(r[1].0)))),
            op!("overflowing_div", 2, Aux::None, spec::overflowing_div, |r, _x| { let (a, f) = r[0].0.overflowing_div(r[1].0); vf((P(a), f)) }),
            op!("overflowing_rem", 2, Aux::None, spec::overflowing_rem, |r, _x| { let (a, f) = r[0].0.overflowing_rem(r[1].0); vf((P(a), f)) }),
            op!("overflowing_div_euclid", 2, Aux::None, spec::overflowing_div_euclid, |r, _x| { let (a, f) = r[0].0.overflowing_div_euclid(r[1].0); vf((P(a), f)) }),
            op!("overflowing_rem_euclid", 2, Aux::None, spec::overflowing_rem_euclid, |r, _x| { let (a, f) = r[0].0.overflowing_rem_euclid(r[1].0); vf((P(a), f)) }),
            op!("strict_div", 2, Aux::None, spec::strict_div, |r, _x| v(P(r[0].0.strict_div(r[1].0)))),
            op!("strict_rem", 2, Aux::None, spec::strict_rem, |r, _x| v(P(r[0].0.strict_rem(r[1].0)))),
            op!("strict_div_euclid", 2, Aux::None, spec::strict_div_euclid, |r, _x| v(P(r[0].0.strict_div_euclid(r[1].0)))),
            op!("strict_rem_euclid", 2, Aux::None, spec::strict_rem_euclid, |r, _x| v(P(r[0].0.strict_rem_euclid(r[1].0)))),
            op!("div_euclid", 2, Aux::None, spec::div_euclid, |r, _x| v(P(r[0].0.div_euclid(r[1].0)))),
            op!("rem_euclid", 2, Aux::None, spec::rem_euclid, |r, _x| v(P(r[0].0.rem_euclid(r[1].0)))),
            op!("saturating_div", 2, Aux::None, spec::saturating_div, |r, _x| v(P(r[0].0.saturating_div(r[1].0)))),
            // shifts
            op!("checked_shl", 1, Aux::Shift, spec::checked_shl, |r, x| ov(r[0].0.checked_shl(x as u32).map(P))),
            op!("checked_shr", 1, Aux::Shift, spec::checked_shr, |r, x| ov(r[0].0.checked_shr(x as u32).map(P))),
            op!("wrapping_shl", 1, Aux::Shift, spec::wrapping_shl, |r, x| v(P(r[0].0.wrapping_shl(x as u32)))),
            op!("wrapping_shr", 1, Aux::Shift, spec::wrapping_shr, |r, x| v(P(r[0].0.wrapping_shr(x as u32)))),
            op!("overflowing_shl", 1, Aux::Shift, spec::overflowing_shl, |r, x| { let (a, f) = r[0].0.overflowing_shl(x as u32); vf((P(a), f)) }),
            op!("overflowing_shr", 1, Aux::Shift, spec::overflowing_shr, |r, x| { let (a, f) = r[0].0.overflowing_shr(x as u32); vf((P(a), f)) }),
            op!("strict_shl", 1, Aux::Shift, spec::strict_shl, |r, x| v(P(r[0].0.strict_shl(x as u32)))),
            op!("strict_shr", 1, Aux::Shift, spec::strict_shr, |r, x| v(P(r[0].0.strict_shr(x as u32)))),
            op!("unbounded_shl", 1, Aux::Shift, spec::unbounded_shl, |r, x| v(P(r[0].0.unbounded_shl(x as u32)))),
            op!("unbounded_shr", 1, Aux::Shift, spec::unbounded_shr, |r, x| v(P(r[0].0.unbounded_shr(x as u32)))),
            op!("shl", 1, Aux::Shift, spec::shl, |r, x| v(P(r[0].0 << (x as u32)))),
            op!("shr", 1, Aux::Shift, spec::shr, |r, x| v(P(r[0].0 >> (x as u32)))),
            op!("rotate_left", 1, Aux::Shift, spec::rotate_left, |r, x| v(P(r[0].0.rotate_left(x as u32)))),
            op!("rotate_right", 1, Aux::Shift, spec::rotate_right, |r, x| v(P(r[0].0.rotate_right(x as u32)))),
            // bits
            op!("bitand", 2, Aux::None, spec::bitand, |r, _x| v(P(r[0].0 & r[1].0))),
            op!("bitor", 2, Aux::None, spec::bitor, |r, _x| v(P(r[0].0 | r[1].0))),
            op!("bitxor", 2, Aux::None, spec::bitxor, |r, _x| v(P(r[0].0 ^ r[1].0))),
            op!("not", 1, Aux::None, spec::not, |r, _x| v(P(!r[0].0))),
            op!("count_ones", 1, Aux::None, spec::count_ones, |r, _x| n(r[0].0.count_ones())),
            op!("count_zeros", 1, Aux::None, spec::count_zeros, |r, _x| n(r[0].0.count_zeros())),
            op!("leading_zeros", 1, Aux::None, spec::leading_zeros, |r, _x| n(r[0].0.leading_zeros())),
            op!("leading_ones", 1, Aux::None, spec::leading_ones, |r, _x| n(r[0].0.leading_ones())),
            op!("trailing_zeros", 1, Aux::None, spec::trailing_zeros, |r, _x| n(r[0].0.trailing_zeros())),
            op!("trailing_ones", 1, Aux::None, spec::trailing_ones, |r, _x| n(r[0].0.trailing_ones())),
            op!("swap_bytes", 1, Aux::None, spec::swap_bytes, |r, _x| v(P(r[0].0.swap_bytes()))),
            op!("reverse_bits", 1, Aux::None, spec::reverse_bits, |r, _x| v(P(r[0].0.reverse_bits()))),
            // comparison
            op!("eq", 2, Aux::None, spec::eq, |r, _x| bo(r[0].0 == r[1].0)),
            op!("lt", 2, Aux::None, spec::lt, |r, _x| bo(r[0].0 < r[1].0)),
            op!("le", 2, Aux::None, spec::le, |r, _x| bo(r[0].0 <= r[1].0)),
            op!("cmp", 2, Aux::None, spec::cmp, |r, _x| ord(r[0].0.cmp(&r[1].0))),
            op!("min", 2, Aux::None, spec::min, |r, _x| v(P(r[0].0.min(r[1].0)))),
            op!("max", 2, Aux::None, spec::max, |r, _x| v(P(r[0].0.max(r[1].0)))),
            // pow / log
            op!("overflowing_pow", 1, Aux::Exp, spec::overflowing_pow, |r, x| { let (a, f) = r[0].0.overflowing_pow(x as u32); vf((P(a), f)) }),
            op!("checked_pow", 1, Aux::Exp, spec::checked_pow, |r, x| ov(r[0].0.checked_pow(x as u32).map(P))),
            op!("wrapping_pow", 1, Aux::Exp, spec::wrapping_pow, |r, x| v(P(r[0].0.wrapping_pow(x as u32)))),
            op!("saturating_pow", 1, Aux::Exp, spec::saturating_pow, |r, x| v(P(r[0].0.saturating_pow(x as u32)))),
            op!("strict_pow", 1, Aux::Exp, spec::strict_pow, |r, x| v(P(r[0].0.strict_pow(x as u32)))),
            op!("pow", 1, Aux::Exp, spec::pow, |r, x| v(P(r[0].0.pow(x as u32)))),
            op!("checked_ilog", 2, Aux::None, spec::checked_ilog, |r, _x| on(r[0].0.checked_ilog(r[1].0))),
            op!("checked_ilog2", 1, Aux::None, spec::checked_ilog2, |r, _x| on(r[0].0.checked_ilog2())),
            op!("checked_ilog10", 1, Aux::None, spec::checked_ilog10, |r, _x| on(r[0].0.checked_ilog10())),
            op!("ilog", 2, Aux::None, spec::ilog, |r, _x| n(r[0].0.ilog(r[1].0))),
            op!("ilog2", 1, Aux::None, spec::ilog2, |r, _x| n(r[0].0.ilog2())),
            op!("ilog10", 1, Aux::None, spec::ilog10, |r, _x| n(r[0].0.ilog10())),
        ];
        $v.extend(tmp);
    };
}

macro_rules! unsigned_ops {
    ($t:ty, $s:ty) => {{
        let mut t: Vec<Op<P<$t>, Z>> = Vec::new();
        common_ops!($t, t);
        let tmp2: Vec<Op<P<$t>, Z>> = vec![
            op!("overflowing_add_signed", 2, Aux::None, spec::overflowing_add_signed, |r, _x| { let (a, f) = r[0].0.overflowing_add_signed(r[1].0 as $s); vf((P(a), f)) }),
            op!("checked_add_signed", 2, Aux::None, spec::checked_add_signed, |r, _x| ov(r[0].0.checked_add_signed(r[1].0 as $s).map(P))),
            op!("wrapping_add_signed", 2, Aux::None, spec::wrapping_add_signed, |r, _x| v(P(r[0].0.wrapping_add_signed(r[1].0 as $s)))),
            op!("saturating_add_signed", 2, Aux::None, spec::saturating_add_signed, |r, _x| v(P(r[0].0.saturating_add_signed(r[1].0 as $s)))),
            op!("strict_add_signed", 2, Aux::None, spec::strict_add_signed, |r, _x| v(P(r[0].0.strict_add_signed(r[1].0 as $s)))),
            op!("carrying_add", 2, Aux::Bool, spec::carrying_add, |r, x| { let (a, f) = r[0].0.carrying_add(r[1].0, x != 0); vf((P(a), f)) }),
            op!("borrowing_sub", 2, Aux::Bool, spec::borrowing_sub, |r, x| { let (a, f) = r[0].0.borrowing_sub(r[1].0, x != 0); vf((P(a), f)) }),
            op!("abs_diff", 2, Aux::None, spec::abs_diff, |r, _x| v(P(r[0].0.abs_diff(r[1].0)))),
            op!("carrying_mul", 3, Aux::None, spec::carrying_mul, |r, _x| { let (lo, hi) = r[0].0.carrying_mul(r[1].0, r[2].0); pr((P(lo), P(hi))) }),
            op!("div_ceil", 2, Aux::None, spec::div_ceil, |r, _x| v(P(r[0].0.div_ceil(r[1].0)))),
            op!("next_multiple_of", 2, Aux::None, spec::next_multiple_of, |r, _x| v(P(r[0].0.next_multiple_of(r[1].0)))),
            op!("checked_next_multiple_of", 2, Aux::None, spec::checked_next_multiple_of, |r, _x| ov(r[0].0.checked_next_multiple_of(r[1].0).map(P))),
            op!("is_power_of_two", 1, Aux::None, spec::is_power_of_two, |r, _x| bo(r[0].0.is_power_of_two())),
            op!("checked_next_power_of_two", 1, Aux::None, spec::checked_next_power_of_two, |r, _x| ov(r[0].0.checked_next_power_of_two().map(P))),
            op!("next_power_of_two", 1, Aux::None, spec::next_power_of_two, |r, _x| v(P(r[0].0.next_power_of_two()))),
        ];
        t.extend(tmp2);
        t
    }};
}

macro_rules! signed_ops {
    ($t:ty, $u:ty) => {{
        let mut t: Vec<Op<P<$t>, Z>> = Vec::new();
        common_ops!($t, t);
        let tmp2: Vec<Op<P<$t>, Z>> = vec![
            op!("overflowing_add_unsigned", 2, Aux::None, spec::overflowing_add_unsigned, |r, _x| { let (a, f) = r[0].0.overflowing_add_unsigned(r[1].0 as $u); vf((P(a), f)) }),
            op!("checked_add_unsigned", 2, Aux::None, spec::checked_add_unsigned, |r, _x| ov(r[0].0.checked_add_unsigned(r[1].0 as $u).map(P))),
            op!("wrapping_add_unsigned", 2, Aux::None, spec::wrapping_add_unsigned, |r, _x| v(P(r[0].0.wrapping_add_unsigned(r[1].0 as $u)))),
            op!("saturating_add_unsigned", 2, Aux::None, spec::saturating_add_unsigned, |r, _x| v(P(r[0].0.saturating_add_unsigned(r[1].0 as $u)))),
            op!("strict_add_unsigned", 2, Aux::None, spec::strict_add_unsigned, |r, _x| v(P(r[0].0.strict_add_unsigned(r[1].0 as $u)))),
            op!("overflowing_sub_unsigned", 2, Aux::None, spec::overflowing_sub_unsigned, |r, _x| { let (a, f) = r[0].0.overflowing_sub_unsigned(r[1].0 as $u); vf((P(a), f)) }),
            op!("checked_sub_unsigned", 2, Aux::None, spec::checked_sub_unsigned, |r, _x| ov(r[0].0.checked_sub_unsigned(r[1].0 as $u).map(P))),
            op!("wrapping_sub_unsigned", 2, Aux::None, spec::wrapping_sub_unsigned, |r, _x| v(P(r[0].0.wrapping_sub_unsigned(r[1].0 as $u)))),
            op!("saturating_sub_unsigned", 2, Aux::None, spec::saturating_sub_unsigned, |r, _x| v(P(r[0].0.saturating_sub_unsigned(r[1].0 as $u)))),
            op!("strict_sub_unsigned", 2, Aux::None, spec::strict_sub_unsigned, |r, _x| v(P(r[0].0.strict_sub_unsigned(r[1].0 as $u)))),
            op!("saturating_neg", 1, Aux::None, spec::saturating_neg, |r, _x| v(P(r[0].0.saturating_neg()))),
            op!("neg", 1, Aux::None, spec::neg, |r, _x| v(P(-r[0].0))),
            op!("overflowing_abs", 1, Aux::None, spec::overflowing_abs, |r, _x| { let (a, f) = r[0].0.overflowing_abs(); vf((P(a), f)) }),
            op!("checked_abs", 1, Aux::None, spec::checked_abs, |r, _x| ov(r[0].0.checked_abs().map(P))),
            op!("wrapping_abs", 1, Aux::None, spec::wrapping_abs, |r, _x| v(P(r[0].0.wrapping_abs()))),
            op!("saturating_abs", 1, Aux::None, spec::saturating_abs, |r, _x| v(P(r[0].0.saturating_abs()))),
            op!("strict_abs", 1, Aux::None, spec::strict_abs, |r, _x| v(P(r[0].0.strict_abs()))),
            op!("abs", 1, Aux::None, spec::abs, |r, _x| v(P(r[0].0.abs()))),
            op!("unsigned_abs", 1, Aux::None, spec::unsigned_abs, |r, _x| Obs::V(P(r[0].0.unsigned_abs()).z())),
            op!("abs_diff", 2, Aux::None, spec::abs_diff, |r, _x| Obs::V(P(r[0].0.abs_diff(r[1].0)).z())),
            op!("signum", 1, Aux::None, spec::signum, |r, _x| v(P(r[0].0.signum()))),
            op!("is_positive", 1, Aux::None, spec::is_positive, |r, _x| bo(r[0].0.is_positive())),
            op!("is_negative", 1, Aux::None, spec::is_negative, |r, _x| bo(r[0].0.is_negative())),
        ];
        t.extend(tmp2);
        t
    }};
}

fn plan_for<T: Subj>(tier: Tier) -> Plan<T> {
    let bits = T::BITS;
    let (a, b) = if bits == 8 {
        (sets::full(8), sets::full(8))
    } else {
        let s = sets::structured(T::DIGIT_BITS, T::N, Tier::Quick);
        (s.clone(), s)
    };
    let c = sets::structured_small(T::DIGIT_BITS, T::N, Tier::Quick).into_iter().take(12).collect::<Vec<_>>();
    Plan::new(if bits == 8 { "FULL^2" } else { "STRUCT^2" }, &a, &b, &c)
        .with_aux(Aux::Shift, sets::shift_amounts(bits, T::DIGIT_BITS, tier))
        .with_aux(Aux::Exp, sets::exponents(bits, Tier::Quick))
}

fn check_one<T: Subj, Z: ZNum>(run: &mut Run, ops: Vec<Op<T, Z>>) {
    let plan = plan_for::<T>(Tier::Quick);
    run.explore(&ops, &plan);
}

fn unsigned_all<Z: ZNum>(run: &mut Run, small_only: bool) {
    check_one::<P<u8>, Z>(run, unsigned_ops!(u8, i8));
    check_one::<P<u16>, Z>(run, unsigned_ops!(u16, i16));
    check_one::<P<u32>, Z>(run, unsigned_ops!(u32, i32));
    if !small_only {
        check_one::<P<u64>, Z>(run, unsigned_ops!(u64, i64));
        check_one::<P<u128>, Z>(run, unsigned_ops!(u128, i128));
    }
}
fn signed_all<Z: ZNum>(run: &mut Run, small_only: bool) {
    check_one::<P<i8>, Z>(run, signed_ops!(i8, u8));
    check_one::<P<i16>, Z>(run, signed_ops!(i16, u16));
    check_one::<P<i32>, Z>(run, signed_ops!(i32, u32));
    if !small_only {
        check_one::<P<i64>, Z>(run, signed_ops!(i64, u64));
        check_one::<P<i128>, Z>(run, signed_ops!(i128, u128));
    }
}

/// Run the model self-check.  Returns a description of the first disagreements, if any.
pub fn selfcheck(debug: bool) -> Result<(u64, f64), String> {
    let t0 = std::time::Instant::now();
    let mut run = Run::bare("SELF", debug);
    unsigned_all::<i128>(&mut run, true);
    signed_all::<i128>(&mut run, true);
    unsigned_all::<BigRef>(&mut run, false);
    signed_all::<BigRef>(&mut run, false);
    let mut trans: u64 = run.configs.iter().map(|c| c.transitions).sum();
    trans += float_selfcheck()?;
    if run.total_violations() > 0 {
        let mut msg = String::from("model self-check failed (spec vs primitive integers):\n");
        for v in run.violations.iter().take(20) {
            msg.push_str(&format!("  {}\n", v.describe()));
        }
        return Err(msg);
    }
    Ok((trans, t0.elapsed().as_secs_f64()))
}

/// float <-> integer reference semantics vs Rust's `as` on primitives
fn float_selfcheck() -> Result<u64, String> {
    use crate::floatspec::*;
    let mut n = 0u64;
    macro_rules! f2i {
        ($bits:expr, $fmt:expr, $fty:ty, $($t:ty, $tb:expr, $sg:expr);*) => {$(
            {
                let ti = TypeInfo { bits: $tb, signed: $sg };
                let got = BigRef::from_i128(0); let _ = got;
                let f = <$fty>::from_bits($bits as _);
                let want = f as $t;
                let want_z = if $sg { BigRef::from_i128(want as i128) } else { BigRef::from_u128(want as u128) };
                let have = float_to_int($bits as u64, $fmt, ti);
                n += 1;
                if have != want_z {
                    return Err(format!("float_to_int({:#x}, {}) = {} but `as {}` gives {}", $bits, stringify!($fty), have, stringify!($t), want_z));
                }
            }
        )*};
    }
    for b in structured_patterns(F32, true) {
        f2i!(b, F32, f32, u8, 8, false; i8, 8, true; u16, 16, false; i16, 16, true; u32, 32, false; i32, 32, true; u64, 64, false; i64, 64, true; u128, 128, false; i128, 128, true);
        for (tb, sg) in [(8u32, false), (8, true), (16, false), (24, true), (32, false), (64, true), (128, false), (128, true), (96, false)] {
            let slow = float_to_int(b, F32, TypeInfo { bits: tb, signed: sg });
            let (neg, mag) = f32_to_int_fast(b as u32, tb, sg);
            let fast = if neg { BigRef::from_u128(mag).neg() } else { BigRef::from_u128(mag) };
            n += 1;
            if slow != fast {
                return Err(format!("f32 fast path disagrees with the exact model at {:#x} -> {}{}: {} vs {}", b, if sg { "i" } else { "u" }, tb, fast, slow));
            }
        }
    }
    for b in structured_patterns(F64, false) {
        f2i!(b, F64, f64, u8, 8, false; i8, 8, true; u32, 32, false; i32, 32, true; u64, 64, false; i64, 64, true; u128, 128, false; i128, 128, true);
        for (tb, sg) in [(8u32, false), (8, true), (16, false), (24, true), (64, true), (128, false), (128, true), (96, false)] {
            let slow = float_to_int(b, F64, TypeInfo { bits: tb, signed: sg });
            let (neg, mag) = f64_to_int_fast(b, tb, sg);
            let fast = if neg { BigRef::from_u128(mag).neg() } else { BigRef::from_u128(mag) };
            n += 1;
            if slow != fast {
                return Err(format!("f64 fast path disagrees with the exact model at {:#x} -> {}{}: {} vs {}", b, if sg { "i" } else { "u" }, tb, fast, slow));
            }
        }
    }
    // integer -> float
    let mut vals: Vec<i128> = vec![0, 1, -1, i128::MAX, i128::MIN, i128::MAX - 1, i64::MAX as i128, i64::MIN as i128];
    for l in 1..127u32 {
        for top in [1i128, 3, 5, 7, 0xffffff, 0x1000001, 0x1000003, 0x1fffffffffffff, 0x20000000000001, 0x20000000000003, 0x3fffffffffffff] {
            let tl = 128 - (top as u128).leading_zeros();
            if tl > l {
                continue;
            }
            let v = top << (l - tl);
            for d in [-1i128, 0, 1, 2] {
                vals.push(v.wrapping_add(d));
                vals.push(v.wrapping_add(d).wrapping_neg());
            }
            vals.push(v | ((1i128 << (l - tl)) - 1));
            vals.push(v | (1i128 << (l - tl) >> 1));
        }
    }
    for v in vals {
        let z = BigRef::from_i128(v);
        n += 4;
        if int_to_float(&z, F32) != (v as f32).to_bits() as u64 {
            return Err(format!("int_to_float({}, f32) = {:#x} but `as f32` gives {:#x}", v, int_to_float(&z, F32), (v as f32).to_bits()));
        }
        if int_to_float(&z, F64) != (v as f64).to_bits() {
            return Err(format!("int_to_float({}, f64) = {:#x} but `as f64` gives {:#x}", v, int_to_float(&z, F64), (v as f64).to_bits()));
        }
        let u = v as u128;
        let zu = BigRef::from_u128(u);
        if int_to_float(&zu, F32) != (u as f32).to_bits() as u64 {
            return Err(format!("int_to_float({}u128, f32) disagrees with `as f32`", u));
        }
        if int_to_float(&zu, F64) != (u as f64).to_bits() {
            return Err(format!("int_to_float({}u128, f64) disagrees with `as f64`", u));
        }
    }
    Ok(n)
}

//! `ZNum`: the mathematical integers as seen by the spec functions.  Two carriers:
//! `i128` (fast path, only used for types of at most 32 bits, every operation is overflow-checked so
//! a carrier overflow is a machinery failure, never a silent wrap) and `BigRef` (any width).

use crate::big::BigRef;
use std::cmp::Ordering;
use std::fmt::{Debug, Display};

pub trait ZNum: Clone + Eq + Ord + Debug + Display + Send + Sync + 'static {
    const FAST: bool;
    fn zi(v: i128) -> Self;
    fn to_i128_opt(&self) -> Option<i128>;
    /// value from `n` little-endian digits of `digit_bits` bits each; two's complement if signed
    fn from_words(n: usize, digit_bits: u32, signed: bool, get: impl Fn(usize) -> u64) -> Self;
    /// (self mod 2^(n*8)) as n little-endian bytes
    fn to_le_bytes_wrapped(&self, n: usize) -> Vec<u8>;
    fn zadd(&self, o: &Self) -> Self;
    fn zsub(&self, o: &Self) -> Self;
    fn zmul(&self, o: &Self) -> Self;
    fn zneg(&self) -> Self;
    fn zabs(&self) -> Self;
    /// truncating division; divisor must be non-zero
    fn divrem_trunc(&self, o: &Self) -> (Self, Self);
    fn zshl(&self, k: u64) -> Self;
    /// floor(self / 2^k)
    fn zshr_floor(&self, k: u64) -> Self;
    /// self mod 2^k, in [0, 2^k)
    fn mod_pow2(&self, k: u64) -> Self;
    fn pow2(k: u64) -> Self;
    fn is_zero(&self) -> bool;
    fn is_neg(&self) -> bool;
    /// bit length of |self|
    fn bit_len(&self) -> u64;
    fn is_even(&self) -> bool;
    fn to_big(&self) -> BigRef;
    fn from_big(b: &BigRef) -> Self;
}

impl ZNum for i128 {
    const FAST: bool = true;
    #[inline]
    fn zi(v: i128) -> Self {
        v
    }
    #[inline]
    fn to_i128_opt(&self) -> Option<i128> {
        Some(*self)
    }
    #[inline]
    fn from_words(n: usize, digit_bits: u32, signed: bool, get: impl Fn(usize) -> u64) -> Self {
        let bits = n as u32 * digit_bits;
        assert!(bits <= 64, "i128 carrier is restricted to <= 64-bit types");
        let mut v: u128 = 0;
        for i in 0..n {
            v |= (get(i) as u128) << (i as u32 * digit_bits);
        }
        if signed && (v >> (bits - 1)) & 1 == 1 {
            v as i128 - (1i128 << bits)
        } else {
            v as i128
        }
    }
    fn to_le_bytes_wrapped(&self, n: usize) -> Vec<u8> {
        let b = self.to_le_bytes();
        let mut out = b[..n.min(16)].to_vec();
        out.resize(n, if *self < 0 { 0xff } else { 0 });
        out
    }
    #[inline]
    fn zadd(&self, o: &Self) -> Self {
        self.checked_add(*o).expect("i128 carrier overflow")
    }
    #[inline]
    fn zsub(&self, o: &Self) -> Self {
        self.checked_sub(*o).expect("i128 carrier overflow")
    }
    #[inline]
    fn zmul(&self, o: &Self) -> Self {
        self.checked_mul(*o).expect("i128 carrier overflow")
    }
    #[inline]
    fn zneg(&self) -> Self {
        self.checked_neg().expect("i128 carrier overflow")
    }
    #[inline]
    fn zabs(&self) -> Self {
        self.checked_abs().expect("i128 carrier overflow")
    }
    #[inline]
    fn divrem_trunc(&self, o: &Self) -> (Self, Self) {
        assert!(*o != 0, "model division by zero");
        (self / o, self % o)
    }
    #[inline]
    fn zshl(&self, k: u64) -> Self {
        assert!(k < 126);
        let r = self.checked_mul(1i128 << k).expect("i128 carrier overflow");
        r
    }
    #[inline]
    fn zshr_floor(&self, k: u64) -> Self {
        if k >= 127 {
            if *self < 0 {
                -1
            } else {
                0
            }
        } else {
            self >> k
        }
    }
    #[inline]
    fn mod_pow2(&self, k: u64) -> Self {
        assert!(k < 127);
        self & ((1i128 << k) - 1)
    }
    #[inline]
    fn pow2(k: u64) -> Self {
        assert!(k < 127);
        1i128 << k
    }
    #[inline]
    fn is_zero(&self) -> bool {
        *self == 0
    }
    #[inline]
    fn is_neg(&self) -> bool {
        *self < 0
    }
    #[inline]
    fn bit_len(&self) -> u64 {
        (128 - self.unsigned_abs().leading_zeros()) as u64
    }
    #[inline]
    fn is_even(&self) -> bool {
        self & 1 == 0
    }
    fn to_big(&self) -> BigRef {
        BigRef::from_i128(*self)
    }
    fn from_big(b: &BigRef) -> Self {
        b.to_i128().expect("value does not fit the i128 carrier")
    }
}

impl ZNum for BigRef {
    const FAST: bool = false;
    fn zi(v: i128) -> Self {
        BigRef::from_i128(v)
    }
    fn to_i128_opt(&self) -> Option<i128> {
        self.to_i128()
    }
    fn from_words(n: usize, digit_bits: u32, signed: bool, get: impl Fn(usize) -> u64) -> Self {
        let db = (digit_bits / 8) as usize;
        let mut bytes = Vec::with_capacity(n * db);
        for i in 0..n {
            let d = get(i);
            for j in 0..db {
                bytes.push((d >> (8 * j)) as u8);
            }
        }
        BigRef::from_le_bytes(&bytes, signed)
    }
    fn to_le_bytes_wrapped(&self, n: usize) -> Vec<u8> {
        BigRef::to_le_bytes_wrapped(self, n)
    }
    fn zadd(&self, o: &Self) -> Self {
        self.add(o)
    }
    fn zsub(&self, o: &Self) -> Self {
        self.sub(o)
    }
    fn zmul(&self, o: &Self) -> Self {
        self.mul(o)
    }
    fn zneg(&self) -> Self {
        self.neg()
    }
    fn zabs(&self) -> Self {
        self.abs()
    }
    fn divrem_trunc(&self, o: &Self) -> (Self, Self) {
        BigRef::divrem_trunc(self, o)
    }
    fn zshl(&self, k: u64) -> Self {
        self.shl(k)
    }
    fn zshr_floor(&self, k: u64) -> Self {
        self.shr_floor(k)
    }
    fn mod_pow2(&self, k: u64) -> Self {
        BigRef::mod_pow2(self, k)
    }
    fn pow2(k: u64) -> Self {
        BigRef::pow2(k)
    }
    fn is_zero(&self) -> bool {
        BigRef::is_zero(self)
    }
    fn is_neg(&self) -> bool {
        BigRef::is_neg(self)
    }
    fn bit_len(&self) -> u64 {
        BigRef::bit_len(self)
    }
    fn is_even(&self) -> bool {
        BigRef::is_even(self)
    }
    fn to_big(&self) -> BigRef {
        self.clone()
    }
    fn from_big(b: &BigRef) -> Self {
        b.clone()
    }
}

/// floor division helpers on any carrier
pub fn divrem_floor<Z: ZNum>(a: &Z, b: &Z) -> (Z, Z) {
    let (q, r) = a.divrem_trunc(b);
    if !r.is_zero() && (r.is_neg() != b.is_neg()) {
        (q.zsub(&Z::zi(1)), r.zadd(b))
    } else {
        (q, r)
    }
}
pub fn divrem_euclid<Z: ZNum>(a: &Z, b: &Z) -> (Z, Z) {
    let (q, r) = a.divrem_trunc(b);
    if r.is_neg() {
        if b.is_neg() {
            (q.zadd(&Z::zi(1)), r.zsub(b))
        } else {
            (q.zsub(&Z::zi(1)), r.zadd(b))
        }
    } else {
        (q, r)
    }
}
pub fn div_ceil<Z: ZNum>(a: &Z, b: &Z) -> Z {
    let (q, r) = a.divrem_trunc(b);
    if !r.is_zero() && (r.is_neg() == b.is_neg()) {
        q.zadd(&Z::zi(1))
    } else {
        q
    }
}

#[derive(Clone, Copy, Debug, PartialEq, Eq)]
pub struct TypeInfo {
    pub bits: u32,
    pub signed: bool,
}

impl TypeInfo {
    pub fn min<Z: ZNum>(&self) -> Z {
        if self.signed {
            Z::pow2(self.bits as u64 - 1).zneg()
        } else {
            Z::zi(0)
        }
    }
    pub fn max<Z: ZNum>(&self) -> Z {
        if self.signed {
            Z::pow2(self.bits as u64 - 1).zsub(&Z::zi(1))
        } else {
            Z::pow2(self.bits as u64).zsub(&Z::zi(1))
        }
    }
    pub fn fits<Z: ZNum>(&self, z: &Z) -> bool {
        if self.signed {
            // -2^(b-1) <= z < 2^(b-1)
            if z.is_neg() {
                let bl = z.bit_len();
                bl < self.bits as u64 || (bl == self.bits as u64 && *z == self.min::<Z>())
            } else {
                z.bit_len() < self.bits as u64
            }
        } else {
            !z.is_neg() && z.bit_len() <= self.bits as u64
        }
    }
    /// reduce into the two's-complement range of the type
    pub fn wrap<Z: ZNum>(&self, z: &Z) -> Z {
        if self.fits(z) {
            return z.clone();
        }
        let m = z.mod_pow2(self.bits as u64);
        if self.signed && m.bit_len() == self.bits as u64 {
            m.zsub(&Z::pow2(self.bits as u64))
        } else {
            m
        }
    }
    pub fn clamp<Z: ZNum>(&self, z: &Z) -> Z {
        if self.fits(z) {
            z.clone()
        } else if z.is_neg() {
            self.min()
        } else {
            self.max()
        }
    }
    pub fn unsigned(&self) -> TypeInfo {
        TypeInfo { bits: self.bits, signed: false }
    }
    pub fn as_signed(&self) -> TypeInfo {
        TypeInfo { bits: self.bits, signed: true }
    }
    pub fn name(&self) -> String {
        format!("{}{}", if self.signed { "i" } else { "u" }, self.bits)
    }
}

pub fn ord_code(o: Ordering) -> i8 {
    match o {
        Ordering::Less => -1,
        Ordering::Equal => 0,
        Ordering::Greater => 1,
    }
}

/// parse-error kinds (mirrors core::num::IntErrorKind)
pub const E_EMPTY: u8 = 0;
pub const E_INVALID: u8 = 1;
pub const E_POS: u8 = 2;
pub const E_NEG: u8 = 3;
pub const E_ZERO: u8 = 4;
pub const E_OTHER: u8 = 9;

/// An observation of one transition, in model space.
#[derive(Clone, Debug, PartialEq, Eq)]
pub enum Obs<Z> {
    Panic,
    Unit,
    V(Z),
    VF(Z, bool),
    OV(Option<Z>),
    P(Z, Z),
    OP(Option<(Z, Z)>),
    B(bool),
    N(u64),
    ON(Option<u64>),
    Ord(i8),
    OOrd(Option<i8>),
    S(String),
    By(Vec<u8>),
    R(Result<Z, u8>),
    F(u64),
    T3(Z, Z, Z),
}

impl<Z: ZNum> Obs<Z> {
    pub fn show(&self) -> String {
        match self {
            Obs::Panic => "panic".into(),
            Obs::Unit => "()".into(),
            Obs::V(z) => format!("{}", z),
            Obs::VF(z, f) => format!("({}, {})", z, f),
            Obs::OV(None) | Obs::OP(None) | Obs::ON(None) | Obs::OOrd(None) => "None".into(),
            Obs::OV(Some(z)) => format!("Some({})", z),
            Obs::P(a, b) => format!("({}, {})", a, b),
            Obs::OP(Some((a, b))) => format!("Some(({}, {}))", a, b),
            Obs::B(b) => format!("{}", b),
            Obs::N(n) => format!("{}", n),
            Obs::ON(Some(n)) => format!("Some({})", n),
            Obs::Ord(o) => format!("Ordering({})", o),
            Obs::OOrd(Some(o)) => format!("Some(Ordering({}))", o),
            Obs::S(s) => format!("{:?}", s),
            Obs::By(b) => format!("bytes{:?}", b),
            Obs::R(Ok(z)) => format!("Ok({})", z),
            Obs::R(Err(k)) => format!("Err(kind {})", k),
            Obs::F(b) => format!("float bits {:#x}", b),
            Obs::T3(a, b, c) => format!("({}, {}, {})", a, b, c),
        }
    }
    /// coarse class of the observation, for the distinct-outcome statistics
    pub fn class(&self) -> u8 {
        match self {
            Obs::Panic => 0,
            Obs::Unit => 1,
            Obs::V(_) => 2,
            Obs::VF(_, false) => 3,
            Obs::VF(_, true) => 4,
            Obs::OV(None) => 5,
            Obs::OV(Some(_)) => 6,
            Obs::P(..) => 7,
            Obs::OP(None) => 8,
            Obs::OP(Some(_)) => 9,
            Obs::B(false) => 10,
            Obs::B(true) => 11,
            Obs::N(_) => 12,
            Obs::ON(None) => 13,
            Obs::ON(Some(_)) => 14,
            Obs::Ord(o) => (16 + *o) as u8,
            Obs::OOrd(None) => 18,
            Obs::OOrd(Some(o)) => (20 + *o) as u8,
            Obs::S(_) => 22,
            Obs::By(_) => 23,
            Obs::R(Ok(_)) => 24,
            Obs::R(Err(k)) => 25 + *k,
            Obs::F(_) => 40,
            Obs::T3(..) => 41,
        }
    }
}

/// What the statement of the property allows for one transition.
#[derive(Clone, Debug)]
pub enum Expect<Z> {
    /// exactly this observation
    Is(Obs<Z>),
    /// either of two observations
    Either(Obs<Z>, Obs<Z>),
    /// must return (any value), must not panic
    NoPanic,
    /// must be an Err of any kind (parse functions)
    AnyErr,
    /// a (value, flag) pair whose value the statement leaves open but whose flag it fixes
    FlagOnly(bool),
    /// the statement does not determine the outcome (never a violation)
    Unspec,
    /// precondition of the operation excludes the state: the implementation is not called
    Skip,
}

impl<Z: ZNum> Expect<Z> {
    pub fn admits(&self, o: &Obs<Z>) -> bool {
        match self {
            Expect::Is(e) => e == o,
            Expect::Either(a, b) => a == o || b == o,
            Expect::NoPanic => !matches!(o, Obs::Panic),
            Expect::AnyErr => matches!(o, Obs::R(Err(_))),
            Expect::FlagOnly(f) => matches!(o, Obs::VF(_, g) if g == f),
            Expect::Unspec => true,
            Expect::Skip => true,
        }
    }
    /// keep only the panic / no-panic part of the expectation
    pub fn panic_only(self) -> Self {
        match self {
            Expect::Is(Obs::Panic) => Expect::Is(Obs::Panic),
            Expect::Is(_) | Expect::Either(..) | Expect::NoPanic | Expect::AnyErr | Expect::FlagOnly(_) => Expect::NoPanic,
            Expect::Unspec => Expect::Unspec,
            Expect::Skip => Expect::Skip,
        }
    }
    /// "rare side" of the contract: flag set, None, panic, error
    pub fn nontrivial(&self) -> bool {
        match self {
            Expect::Is(o) => matches!(
                o,
                Obs::Panic
                    | Obs::VF(_, true)
                    | Obs::OV(None)
                    | Obs::OP(None)
                    | Obs::ON(None)
                    | Obs::OOrd(None)
                    | Obs::R(Err(_))
                    | Obs::Ord(0)
                    | Obs::OOrd(Some(0))
            ),
            Expect::AnyErr => true,
            Expect::FlagOnly(f) => *f,
            _ => false,
        }
    }
    pub fn show(&self) -> String {
        match self {
            Expect::Is(o) => o.show(),
            Expect::Either(a, b) => format!("{} or {}", a.show(), b.show()),
            Expect::NoPanic => "any value, no panic".into(),
            Expect::AnyErr => "Err(_)".into(),
            Expect::FlagOnly(f) => format!("(_, {})", f),
            Expect::Unspec => "unspecified".into(),
            Expect::Skip => "skipped".into(),
        }
    }
}

//! Spec functions: what the property statements say each operation returns, written once against
//! `TypeInfo` and an exact-integer carrier `Z`.  A spec never looks at the implementation.

use crate::znum::*;
use std::cell::OnceCell;

pub struct Ctx<'a, Z: ZNum> {
    pub ti: TypeInfo,
    pub r: [&'a Z; 3],
    pub aux: u64,
    /// cfg(debug_assertions) of the build under test
    pub debug: bool,
    qr: OnceCell<(Z, Z)>,
}

pub type SpecFn<Z> = fn(&Ctx<Z>) -> Expect<Z>;

impl<'a, Z: ZNum> Ctx<'a, Z> {
    pub fn new(ti: TypeInfo, r: [&'a Z; 3], aux: u64, debug: bool) -> Self {
        Ctx { ti, r, aux, debug, qr: OnceCell::new() }
    }
    /// same pair (r0, r1), different third register / aux: keeps the cached quotient
    pub fn with(&mut self, c: &'a Z, aux: u64) {
        self.r[2] = c;
        self.aux = aux;
    }
    #[inline]
    pub fn a(&self) -> &Z {
        self.r[0]
    }
    #[inline]
    pub fn b(&self) -> &Z {
        self.r[1]
    }
    #[inline]
    pub fn c(&self) -> &Z {
        self.r[2]
    }
    pub fn bits(&self) -> u64 {
        self.ti.bits as u64
    }
    /// the unsigned image (bit pattern) of register i
    pub fn pat(&self, i: usize) -> Z {
        self.r[i].mod_pow2(self.bits())
    }
    /// register i reinterpreted as the signed type of the same width
    pub fn as_signed(&self, i: usize) -> Z {
        self.ti.as_signed().wrap(self.r[i])
    }
    /// register i reinterpreted as the unsigned type of the same width
    pub fn as_unsigned(&self, i: usize) -> Z {
        self.pat(i)
    }
    pub fn min(&self) -> Z {
        self.ti.min()
    }
    pub fn max(&self) -> Z {
        self.ti.max()
    }
    pub fn is_min(&self, i: usize) -> bool {
        self.ti.signed && *self.r[i] == self.ti.min::<Z>()
    }
    /// truncated quotient and remainder of (r0, r1), cached
    pub fn qr(&self) -> &(Z, Z) {
        self.qr.get_or_init(|| self.a().divrem_trunc(self.b()))
    }
    /// signed MIN / -1
    pub fn div_overflows(&self) -> bool {
        self.is_min(0) && *self.b() == Z::zi(-1)
    }

    // ---- projections of an exact result -------------------------------------------------
    pub fn ovf(&self, z: Z) -> Expect<Z> {
        let f = !self.ti.fits(&z);
        Expect::Is(Obs::VF(self.ti.wrap(&z), f))
    }
    pub fn chk(&self, z: Z) -> Expect<Z> {
        Expect::Is(Obs::OV(if self.ti.fits(&z) { Some(z) } else { None }))
    }
    pub fn wr(&self, z: Z) -> Expect<Z> {
        Expect::Is(Obs::V(self.ti.wrap(&z)))
    }
    pub fn sat(&self, z: Z) -> Expect<Z> {
        Expect::Is(Obs::V(self.ti.clamp(&z)))
    }
    pub fn strict(&self, z: Z) -> Expect<Z> {
        if self.ti.fits(&z) {
            Expect::Is(Obs::V(z))
        } else {
            Expect::Is(Obs::Panic)
        }
    }
    /// unsuffixed form: panics on overflow with debug assertions, wraps without
    pub fn dbg(&self, z: Z) -> Expect<Z> {
        if self.ti.fits(&z) {
            Expect::Is(Obs::V(z))
        } else if self.debug {
            Expect::Is(Obs::Panic)
        } else {
            Expect::Is(Obs::V(self.ti.wrap(&z)))
        }
    }
    /// unchecked form: only defined when the exact result fits
    pub fn unchecked(&self, z: Z) -> Expect<Z> {
        if self.ti.fits(&z) {
            Expect::Is(Obs::V(z))
        } else {
            Expect::Skip
        }
    }
    /// exact value that is representable by construction
    pub fn val(&self, z: Z) -> Expect<Z> {
        assert!(self.ti.fits(&z), "spec produced an unrepresentable value for an infallible op");
        Expect::Is(Obs::V(z))
    }
}

fn is<Z: ZNum>(o: Obs<Z>) -> Expect<Z> {
    Expect::Is(o)
}
fn one<Z: ZNum>() -> Z {
    Z::zi(1)
}

macro_rules! proj {
    ($exact:ident; $ovf:ident, $chk:ident, $wr:ident, $sat:ident, $strict:ident, $dbg:ident, $unchecked:ident) => {
        pub fn $ovf<Z: ZNum>(c: &Ctx<Z>) -> Expect<Z> {
            c.ovf($exact(c))
        }
        pub fn $chk<Z: ZNum>(c: &Ctx<Z>) -> Expect<Z> {
            c.chk($exact(c))
        }
        pub fn $wr<Z: ZNum>(c: &Ctx<Z>) -> Expect<Z> {
            c.wr($exact(c))
        }
        pub fn $sat<Z: ZNum>(c: &Ctx<Z>) -> Expect<Z> {
            c.sat($exact(c))
        }
        pub fn $strict<Z: ZNum>(c: &Ctx<Z>) -> Expect<Z> {
            c.strict($exact(c))
        }
        pub fn $dbg<Z: ZNum>(c: &Ctx<Z>) -> Expect<Z> {
            c.dbg($exact(c))
        }
        pub fn $unchecked<Z: ZNum>(c: &Ctx<Z>) -> Expect<Z> {
            c.unchecked($exact(c))
        }
    };
}

// =============================== C01 =====================================================
fn x_add<Z: ZNum>(c: &Ctx<Z>) -> Z {
    c.a().zadd(c.b())
}
fn x_sub<Z: ZNum>(c: &Ctx<Z>) -> Z {
    c.a().zsub(c.b())
}
/// unsigned self + signed rhs (rhs = bits of r1 read as signed)
fn x_add_signed<Z: ZNum>(c: &Ctx<Z>) -> Z {
    c.a().zadd(&c.as_signed(1))
}
/// signed self +/- unsigned rhs (rhs = bits of r1 read as unsigned)
fn x_add_unsigned<Z: ZNum>(c: &Ctx<Z>) -> Z {
    c.a().zadd(&c.as_unsigned(1))
}
fn x_sub_unsigned<Z: ZNum>(c: &Ctx<Z>) -> Z {
    c.a().zsub(&c.as_unsigned(1))
}
fn x_neg<Z: ZNum>(c: &Ctx<Z>) -> Z {
    c.a().zneg()
}
fn x_abs<Z: ZNum>(c: &Ctx<Z>) -> Z {
    c.a().zabs()
}
proj!(x_add; overflowing_add, checked_add, wrapping_add, saturating_add, strict_add, add, unchecked_add);
proj!(x_sub; overflowing_sub, checked_sub, wrapping_sub, saturating_sub, strict_sub, sub, unchecked_sub);
proj!(x_add_signed; overflowing_add_signed, checked_add_signed, wrapping_add_signed, saturating_add_signed, strict_add_signed, dbg_add_signed, unchecked_add_signed);
proj!(x_add_unsigned; overflowing_add_unsigned, checked_add_unsigned, wrapping_add_unsigned, saturating_add_unsigned, strict_add_unsigned, dbg_add_unsigned, unchecked_add_unsigned);
proj!(x_sub_unsigned; overflowing_sub_unsigned, checked_sub_unsigned, wrapping_sub_unsigned, saturating_sub_unsigned, strict_sub_unsigned, dbg_sub_unsigned, unchecked_sub_unsigned);
proj!(x_neg; overflowing_neg, checked_neg, wrapping_neg, saturating_neg, strict_neg, neg, unchecked_neg);
proj!(x_abs; overflowing_abs, checked_abs, wrapping_abs, saturating_abs, strict_abs, abs, unchecked_abs);

/// aux = carry-in bit
pub fn carrying_add<Z: ZNum>(c: &Ctx<Z>) -> Expect<Z> {
    c.ovf(c.a().zadd(c.b()).zadd(&Z::zi((c.aux & 1) as i128)))
}
pub fn borrowing_sub<Z: ZNum>(c: &Ctx<Z>) -> Expect<Z> {
    c.ovf(c.a().zsub(c.b()).zsub(&Z::zi((c.aux & 1) as i128)))
}
/// result is of the unsigned type of the same width
pub fn abs_diff<Z: ZNum>(c: &Ctx<Z>) -> Expect<Z> {
    is(Obs::V(c.a().zsub(c.b()).zabs()))
}
pub fn unsigned_abs<Z: ZNum>(c: &Ctx<Z>) -> Expect<Z> {
    is(Obs::V(c.a().zabs()))
}
/// floor for unsigned, toward zero for signed
pub fn midpoint<Z: ZNum>(c: &Ctx<Z>) -> Expect<Z> {
    let s = c.a().zadd(c.b());
    let m = if c.ti.signed { s.divrem_trunc(&Z::zi(2)).0 } else { s.zshr_floor(1) };
    c.val(m)
}

// =============================== C02 =====================================================
fn x_mul<Z: ZNum>(c: &Ctx<Z>) -> Z {
    c.a().zmul(c.b())
}
proj!(x_mul; overflowing_mul, checked_mul, wrapping_mul, saturating_mul, strict_mul, mul, unchecked_mul);

fn split<Z: ZNum>(c: &Ctx<Z>, z: Z) -> Expect<Z> {
    let lo = z.mod_pow2(c.bits());
    let hi = z.zshr_floor(c.bits());
    is(Obs::P(lo, hi))
}
/// unsigned only: (lo, hi)
pub fn widening_mul<Z: ZNum>(c: &Ctx<Z>) -> Expect<Z> {
    split(c, c.a().zmul(c.b()))
}
pub fn carrying_mul<Z: ZNum>(c: &Ctx<Z>) -> Expect<Z> {
    split(c, c.a().zmul(c.b()).zadd(c.c()))
}

// =============================== C03 =====================================================
#[derive(Clone, Copy, PartialEq)]
enum DivKind {
    Trunc,
    Euclid,
    Floor,
    Ceil,
}
fn quot<Z: ZNum>(c: &Ctx<Z>, k: DivKind) -> Z {
    let (q, r) = c.qr();
    match k {
        DivKind::Trunc => q.clone(),
        DivKind::Euclid => {
            if r.is_neg() {
                if c.b().is_neg() {
                    q.zadd(&one())
                } else {
                    q.zsub(&one())
                }
            } else {
                q.clone()
            }
        }
        DivKind::Floor => {
            if !r.is_zero() && (r.is_neg() != c.b().is_neg()) {
                q.zsub(&one())
            } else {
                q.clone()
            }
        }
        DivKind::Ceil => {
            if !r.is_zero() && (r.is_neg() == c.b().is_neg()) {
                q.zadd(&one())
            } else {
                q.clone()
            }
        }
    }
}
fn remd<Z: ZNum>(c: &Ctx<Z>, k: DivKind) -> Z {
    let (_, r) = c.qr();
    match k {
        DivKind::Trunc => r.clone(),
        DivKind::Euclid => {
            if r.is_neg() {
                r.zadd(&c.b().zabs())
            } else {
                r.clone()
            }
        }
        DivKind::Floor => {
            if !r.is_zero() && (r.is_neg() != c.b().is_neg()) {
                r.zadd(c.b())
            } else {
                r.clone()
            }
        }
        DivKind::Ceil => unreachable!(),
    }
}

/// How the zero divisor is treated by the functions of a check:
/// C03 leaves the panic to C04 (`Skip`), C04 demands it.
fn zero_div<Z: ZNum>(c: &Ctx<Z>) -> Option<Expect<Z>> {
    if c.b().is_zero() {
        Some(Expect::Is(Obs::Panic))
    } else {
        None
    }
}

macro_rules! divfam {
    ($kind:expr, $isrem:expr; $checked:ident, $wrapping:ident, $overflowing:ident, $strict:ident, $plain:ident) => {
        pub fn $checked<Z: ZNum>(c: &Ctx<Z>) -> Expect<Z> {
            if c.b().is_zero() || c.div_overflows() {
                return is(Obs::OV(None));
            }
            is(Obs::OV(Some(if $isrem { remd(c, $kind) } else { quot(c, $kind) })))
        }
        pub fn $wrapping<Z: ZNum>(c: &Ctx<Z>) -> Expect<Z> {
            if let Some(e) = zero_div(c) {
                return e;
            }
            if c.div_overflows() {
                return is(Obs::V(if $isrem { Z::zi(0) } else { c.min() }));
            }
            is(Obs::V(if $isrem { remd(c, $kind) } else { quot(c, $kind) }))
        }
        pub fn $overflowing<Z: ZNum>(c: &Ctx<Z>) -> Expect<Z> {
            if let Some(e) = zero_div(c) {
                return e;
            }
            if c.div_overflows() {
                return is(Obs::VF(if $isrem { Z::zi(0) } else { c.min() }, true));
            }
            is(Obs::VF(if $isrem { remd(c, $kind) } else { quot(c, $kind) }, false))
        }
        /// strict_*: panics for zero divisor and for MIN / -1, in both build modes
        pub fn $strict<Z: ZNum>(c: &Ctx<Z>) -> Expect<Z> {
            if let Some(e) = zero_div(c) {
                return e;
            }
            if c.div_overflows() {
                return is(Obs::Panic);
            }
            is(Obs::V(if $isrem { remd(c, $kind) } else { quot(c, $kind) }))
        }
        /// operator / unsuffixed method: panics for zero divisor; MIN / -1 see callers
        pub fn $plain<Z: ZNum>(c: &Ctx<Z>) -> Expect<Z> {
            if let Some(e) = zero_div(c) {
                return e;
            }
            if c.div_overflows() {
                return is(Obs::Panic);
            }
            is(Obs::V(if $isrem { remd(c, $kind) } else { quot(c, $kind) }))
        }
    };
}
divfam!(DivKind::Trunc, false; checked_div, wrapping_div, overflowing_div, strict_div, div);
divfam!(DivKind::Trunc, true; checked_rem, wrapping_rem, overflowing_rem, strict_rem, rem);
divfam!(DivKind::Euclid, false; checked_div_euclid, wrapping_div_euclid, overflowing_div_euclid, strict_div_euclid, div_euclid_strictmin);
divfam!(DivKind::Euclid, true; checked_rem_euclid, wrapping_rem_euclid, overflowing_rem_euclid, strict_rem_euclid, rem_euclid_strictmin);

/// unsuffixed div_euclid / rem_euclid: MIN / -1 is not named by any statement
pub fn div_euclid<Z: ZNum>(c: &Ctx<Z>) -> Expect<Z> {
    if c.div_overflows() {
        return Expect::Unspec;
    }
    div_euclid_strictmin(c)
}
pub fn rem_euclid<Z: ZNum>(c: &Ctx<Z>) -> Expect<Z> {
    if c.div_overflows() {
        return Expect::Unspec;
    }
    rem_euclid_strictmin(c)
}
pub fn saturating_div<Z: ZNum>(c: &Ctx<Z>) -> Expect<Z> {
    if let Some(e) = zero_div(c) {
        return e;
    }
    if c.div_overflows() {
        return is(Obs::V(c.max()));
    }
    is(Obs::V(quot(c, DivKind::Trunc)))
}
pub fn div_floor<Z: ZNum>(c: &Ctx<Z>) -> Expect<Z> {
    if let Some(e) = zero_div(c) {
        return e;
    }
    if c.div_overflows() {
        return Expect::Unspec;
    }
    is(Obs::V(quot(c, DivKind::Floor)))
}
pub fn div_ceil<Z: ZNum>(c: &Ctx<Z>) -> Expect<Z> {
    if let Some(e) = zero_div(c) {
        return e;
    }
    if c.div_overflows() {
        return Expect::Unspec;
    }
    is(Obs::V(quot(c, DivKind::Ceil)))
}
/// nearest multiple of rhs at or beyond self in the direction of rhs's sign (exact, may not fit):
/// rhs > 0: least multiple >= self = ceil(self/rhs)*rhs; rhs < 0: greatest multiple <= self, which
/// is again ceil(self/rhs)*rhs.
fn x_next_multiple<Z: ZNum>(c: &Ctx<Z>) -> Z {
    quot(c, DivKind::Ceil).zmul(c.b())
}
pub fn next_multiple_of<Z: ZNum>(c: &Ctx<Z>) -> Expect<Z> {
    if let Some(e) = zero_div(c) {
        return e;
    }
    if c.div_overflows() {
        return Expect::Unspec;
    }
    c.dbg(x_next_multiple(c))
}
pub fn checked_next_multiple_of<Z: ZNum>(c: &Ctx<Z>) -> Expect<Z> {
    if c.b().is_zero() {
        return is(Obs::OV(None));
    }
    c.chk(x_next_multiple(c))
}

// =============================== C05 =====================================================
fn x_shl<Z: ZNum>(c: &Ctx<Z>, s: u64) -> Z {
    c.ti.wrap(&c.a().zshl(s))
}
fn x_shr<Z: ZNum>(c: &Ctx<Z>, s: u64) -> Z {
    c.a().zshr_floor(s)
}
fn pow2_bits(bits: u64) -> bool {
    bits.is_power_of_two()
}
macro_rules! shiftfam {
    ($x:ident, $over:expr; $checked:ident, $wrapping:ident, $overflowing:ident, $strict:ident, $unchecked:ident, $plain:ident, $unbounded:ident) => {
        pub fn $checked<Z: ZNum>(c: &Ctx<Z>) -> Expect<Z> {
            if c.aux >= c.bits() {
                is(Obs::OV(None))
            } else {
                is(Obs::OV(Some($x(c, c.aux))))
            }
        }
        pub fn $wrapping<Z: ZNum>(c: &Ctx<Z>) -> Expect<Z> {
            if c.aux < c.bits() {
                is(Obs::V($x(c, c.aux)))
            } else if pow2_bits(c.bits()) {
                is(Obs::V($x(c, c.aux % c.bits())))
            } else {
                Expect::NoPanic
            }
        }
        pub fn $overflowing<Z: ZNum>(c: &Ctx<Z>) -> Expect<Z> {
            if c.aux < c.bits() {
                is(Obs::VF($x(c, c.aux), false))
            } else if pow2_bits(c.bits()) {
                is(Obs::VF($x(c, c.aux % c.bits()), true))
            } else {
                Expect::FlagOnly(true)
            }
        }
        pub fn $strict<Z: ZNum>(c: &Ctx<Z>) -> Expect<Z> {
            if c.aux < c.bits() {
                is(Obs::V($x(c, c.aux)))
            } else {
                is(Obs::Panic)
            }
        }
        pub fn $unchecked<Z: ZNum>(c: &Ctx<Z>) -> Expect<Z> {
            if c.aux < c.bits() {
                is(Obs::V($x(c, c.aux)))
            } else {
                Expect::Skip
            }
        }
        /// `<<` / `>>` / shl / shr with a u32 amount
        pub fn $plain<Z: ZNum>(c: &Ctx<Z>) -> Expect<Z> {
            if c.aux < c.bits() {
                is(Obs::V($x(c, c.aux)))
            } else if c.debug {
                is(Obs::Panic)
            } else if pow2_bits(c.bits()) {
                is(Obs::V($x(c, c.aux % c.bits())))
            } else {
                Expect::NoPanic
            }
        }
        pub fn $unbounded<Z: ZNum>(c: &Ctx<Z>) -> Expect<Z> {
            if c.aux < c.bits() {
                is(Obs::V($x(c, c.aux)))
            } else {
                is(Obs::V($over(c)))
            }
        }
    };
}
fn over_shl<Z: ZNum>(_c: &Ctx<Z>) -> Z {
    Z::zi(0)
}
fn over_shr<Z: ZNum>(c: &Ctx<Z>) -> Z {
    if c.a().is_neg() {
        Z::zi(-1)
    } else {
        Z::zi(0)
    }
}
shiftfam!(x_shl, over_shl; checked_shl, wrapping_shl, overflowing_shl, strict_shl, unchecked_shl, shl, unbounded_shl);
shiftfam!(x_shr, over_shr; checked_shr, wrapping_shr, overflowing_shr, strict_shr, unchecked_shr, shr, unbounded_shr);

fn rot_left<Z: ZNum>(c: &Ctx<Z>, p: &Z, k: u64) -> Z {
    let bits = c.bits();
    let k = k % bits;
    if k == 0 {
        return p.clone();
    }
    let hi = p.zshl(k).mod_pow2(bits);
    let lo = p.zshr_floor(bits - k);
    hi.zadd(&lo)
}
pub fn rotate_left<Z: ZNum>(c: &Ctx<Z>) -> Expect<Z> {
    let r = rot_left(c, &c.pat(0), c.aux);
    is(Obs::V(c.ti.wrap(&r)))
}
pub fn rotate_right<Z: ZNum>(c: &Ctx<Z>) -> Expect<Z> {
    let k = c.aux % c.bits();
    let r = rot_left(c, &c.pat(0), c.bits() - k);
    is(Obs::V(c.ti.wrap(&r)))
}
/// x.rotate_left(n).rotate_right(n) and the reverse composition are the identity
pub fn identity<Z: ZNum>(c: &Ctx<Z>) -> Expect<Z> {
    is(Obs::V(c.a().clone()))
}

// =============================== C06 =====================================================
fn pat_bytes<Z: ZNum>(c: &Ctx<Z>, i: usize) -> Vec<u8> {
    c.r[i].to_le_bytes_wrapped((c.bits() / 8) as usize)
}
fn from_pat_bytes<Z: ZNum>(c: &Ctx<Z>, b: &[u8]) -> Z {
    Z::from_words(b.len(), 8, c.ti.signed, |i| b[i] as u64)
}
fn bytewise<Z: ZNum>(c: &Ctx<Z>, f: impl Fn(u8, u8) -> u8) -> Expect<Z> {
    let (x, y) = (pat_bytes(c, 0), pat_bytes(c, 1));
    let z: Vec<u8> = x.iter().zip(y.iter()).map(|(p, q)| f(*p, *q)).collect();
    is(Obs::V(from_pat_bytes(c, &z)))
}
pub fn bitand<Z: ZNum>(c: &Ctx<Z>) -> Expect<Z> {
    bytewise(c, |p, q| p & q)
}
pub fn bitor<Z: ZNum>(c: &Ctx<Z>) -> Expect<Z> {
    bytewise(c, |p, q| p | q)
}
pub fn bitxor<Z: ZNum>(c: &Ctx<Z>) -> Expect<Z> {
    bytewise(c, |p, q| p ^ q)
}
pub fn not<Z: ZNum>(c: &Ctx<Z>) -> Expect<Z> {
    // !x = -x - 1 in two's complement; for unsigned 2^bits - 1 - x
    let z = if c.ti.signed { c.a().zneg().zsub(&one()) } else { c.max().zsub(c.a()) };
    c.val(z)
}
fn bitvec<Z: ZNum>(c: &Ctx<Z>, i: usize) -> Vec<bool> {
    let b = pat_bytes(c, i);
    let mut v = Vec::with_capacity(b.len() * 8);
    for byte in b {
        for k in 0..8 {
            v.push((byte >> k) & 1 == 1);
        }
    }
    v
}
pub fn count_ones<Z: ZNum>(c: &Ctx<Z>) -> Expect<Z> {
    is(Obs::N(bitvec(c, 0).iter().filter(|b| **b).count() as u64))
}
pub fn count_zeros<Z: ZNum>(c: &Ctx<Z>) -> Expect<Z> {
    is(Obs::N(bitvec(c, 0).iter().filter(|b| !**b).count() as u64))
}
pub fn leading_zeros<Z: ZNum>(c: &Ctx<Z>) -> Expect<Z> {
    is(Obs::N(bitvec(c, 0).iter().rev().take_while(|b| !**b).count() as u64))
}
pub fn leading_ones<Z: ZNum>(c: &Ctx<Z>) -> Expect<Z> {
    is(Obs::N(bitvec(c, 0).iter().rev().take_while(|b| **b).count() as u64))
}
pub fn trailing_zeros<Z: ZNum>(c: &Ctx<Z>) -> Expect<Z> {
    is(Obs::N(bitvec(c, 0).iter().take_while(|b| !**b).count() as u64))
}
pub fn trailing_ones<Z: ZNum>(c: &Ctx<Z>) -> Expect<Z> {
    is(Obs::N(bitvec(c, 0).iter().take_while(|b| **b).count() as u64))
}
/// bit length of the pattern
pub fn bits<Z: ZNum>(c: &Ctx<Z>) -> Expect<Z> {
    is(Obs::N(c.pat(0).bit_len()))
}
/// aux = bit index (< BITS, otherwise outside the statement)
pub fn bit<Z: ZNum>(c: &Ctx<Z>) -> Expect<Z> {
    if c.aux >= c.bits() {
        return Expect::Unspec;
    }
    is(Obs::B(bitvec(c, 0)[c.aux as usize]))
}
/// aux = index | (value << 32)
pub fn set_bit<Z: ZNum>(c: &Ctx<Z>) -> Expect<Z> {
    let idx = c.aux & 0xffff_ffff;
    let v = (c.aux >> 32) & 1 == 1;
    if idx >= c.bits() {
        return Expect::Unspec;
    }
    let mut bv = bitvec(c, 0);
    bv[idx as usize] = v;
    let mut bytes = vec![0u8; bv.len() / 8];
    for (i, b) in bv.iter().enumerate() {
        if *b {
            bytes[i / 8] |= 1 << (i % 8);
        }
    }
    is(Obs::V(from_pat_bytes(c, &bytes)))
}
/// aux = k
pub fn power_of_two<Z: ZNum>(c: &Ctx<Z>) -> Expect<Z> {
    if c.aux >= c.bits() {
        return Expect::Unspec;
    }
    is(Obs::V(c.ti.wrap(&Z::pow2(c.aux))))
}
pub fn is_power_of_two<Z: ZNum>(c: &Ctx<Z>) -> Expect<Z> {
    let a = c.a();
    let p = !a.is_neg() && !a.is_zero() && *a == Z::pow2(a.bit_len() - 1);
    is(Obs::B(p))
}
fn x_next_pow2<Z: ZNum>(c: &Ctx<Z>) -> Z {
    let a = c.a();
    if a.is_zero() || a.is_neg() {
        return one();
    }
    let k = a.bit_len();
    if *a == Z::pow2(k - 1) {
        a.clone()
    } else {
        Z::pow2(k)
    }
}
pub fn checked_next_power_of_two<Z: ZNum>(c: &Ctx<Z>) -> Expect<Z> {
    c.chk(x_next_pow2(c))
}
/// 0 when it does not fit
pub fn wrapping_next_power_of_two<Z: ZNum>(c: &Ctx<Z>) -> Expect<Z> {
    let z = x_next_pow2(c);
    if c.ti.fits(&z) {
        is(Obs::V(z))
    } else {
        is(Obs::V(Z::zi(0)))
    }
}
/// unsuffixed: debug panic / release wrap (to 0)
pub fn next_power_of_two<Z: ZNum>(c: &Ctx<Z>) -> Expect<Z> {
    let z = x_next_pow2(c);
    if c.ti.fits(&z) {
        is(Obs::V(z))
    } else if c.debug {
        is(Obs::Panic)
    } else {
        is(Obs::V(Z::zi(0)))
    }
}
pub fn swap_bytes<Z: ZNum>(c: &Ctx<Z>) -> Expect<Z> {
    let mut b = pat_bytes(c, 0);
    b.reverse();
    is(Obs::V(from_pat_bytes(c, &b)))
}
pub fn reverse_bits<Z: ZNum>(c: &Ctx<Z>) -> Expect<Z> {
    let mut b = pat_bytes(c, 0);
    b.reverse();
    for x in b.iter_mut() {
        *x = x.reverse_bits();
    }
    is(Obs::V(from_pat_bytes(c, &b)))
}
pub fn is_zero<Z: ZNum>(c: &Ctx<Z>) -> Expect<Z> {
    is(Obs::B(c.a().is_zero()))
}
pub fn is_one<Z: ZNum>(c: &Ctx<Z>) -> Expect<Z> {
    is(Obs::B(*c.a() == one()))
}

// =============================== C07 =====================================================
pub fn eq<Z: ZNum>(c: &Ctx<Z>) -> Expect<Z> {
    is(Obs::B(c.a() == c.b()))
}
pub fn ne<Z: ZNum>(c: &Ctx<Z>) -> Expect<Z> {
    is(Obs::B(c.a() != c.b()))
}
pub fn lt<Z: ZNum>(c: &Ctx<Z>) -> Expect<Z> {
    is(Obs::B(c.a() < c.b()))
}
pub fn le<Z: ZNum>(c: &Ctx<Z>) -> Expect<Z> {
    is(Obs::B(c.a() <= c.b()))
}
pub fn gt<Z: ZNum>(c: &Ctx<Z>) -> Expect<Z> {
    is(Obs::B(c.a() > c.b()))
}
pub fn ge<Z: ZNum>(c: &Ctx<Z>) -> Expect<Z> {
    is(Obs::B(c.a() >= c.b()))
}
pub fn cmp<Z: ZNum>(c: &Ctx<Z>) -> Expect<Z> {
    is(Obs::Ord(ord_code(c.a().cmp(c.b()))))
}
pub fn partial_cmp<Z: ZNum>(c: &Ctx<Z>) -> Expect<Z> {
    is(Obs::OOrd(Some(ord_code(c.a().cmp(c.b())))))
}
pub fn min<Z: ZNum>(c: &Ctx<Z>) -> Expect<Z> {
    is(Obs::V(c.a().min(c.b()).clone()))
}
pub fn max<Z: ZNum>(c: &Ctx<Z>) -> Expect<Z> {
    is(Obs::V(c.a().max(c.b()).clone()))
}
/// clamp(self = r0, min = r1, max = r2); min > max is outside the statement
pub fn clamp<Z: ZNum>(c: &Ctx<Z>) -> Expect<Z> {
    if c.b() > c.c() {
        // excluded by the statement (and it panics, like Ord::clamp): not called
        return Expect::Skip;
    }
    let v = if c.a() < c.b() {
        c.b()
    } else if c.a() > c.c() {
        c.c()
    } else {
        c.a()
    };
    is(Obs::V(v.clone()))
}
pub fn signum<Z: ZNum>(c: &Ctx<Z>) -> Expect<Z> {
    let s = if c.a().is_zero() {
        0
    } else if c.a().is_neg() {
        -1
    } else {
        1
    };
    is(Obs::V(Z::zi(s)))
}
pub fn is_positive<Z: ZNum>(c: &Ctx<Z>) -> Expect<Z> {
    is(Obs::B(!c.a().is_zero() && !c.a().is_neg()))
}
pub fn is_negative<Z: ZNum>(c: &Ctx<Z>) -> Expect<Z> {
    is(Obs::B(c.a().is_neg()))
}

// =============================== C08 =====================================================
/// exact a^e if it fits in about bits+2 bits, else None (meaning: certainly unrepresentable)
fn pow_exact_bounded<Z: ZNum>(c: &Ctx<Z>) -> Option<Z> {
    let a = c.a();
    let e = c.aux;
    if e == 0 {
        return Some(one());
    }
    if a.is_zero() {
        return Some(Z::zi(0));
    }
    if *a == one() {
        return Some(one());
    }
    if *a == Z::zi(-1) {
        return Some(if e % 2 == 0 { one() } else { Z::zi(-1) });
    }
    // |a| >= 2: |a|^e >= 2^e
    if e > c.bits() {
        return None;
    }
    let mut acc: Z = one();
    for _ in 0..e {
        acc = acc.zmul(a);
        if acc.bit_len() > c.bits() + 1 {
            return None;
        }
    }
    Some(acc)
}
/// a^e mod 2^bits by square and multiply on the unsigned image
fn pow_wrapped<Z: ZNum>(c: &Ctx<Z>) -> Z {
    let bits = c.bits();
    let mut base = c.pat(0);
    let mut e = c.aux;
    let mut acc: Z = one();
    while e > 0 {
        if e & 1 == 1 {
            acc = acc.zmul(&base).mod_pow2(bits);
        }
        e >>= 1;
        if e > 0 {
            base = base.zmul(&base).mod_pow2(bits);
        }
    }
    c.ti.wrap(&acc.mod_pow2(bits))
}
fn pow_negative<Z: ZNum>(c: &Ctx<Z>) -> bool {
    c.a().is_neg() && c.aux % 2 == 1
}
pub fn overflowing_pow<Z: ZNum>(c: &Ctx<Z>) -> Expect<Z> {
    match pow_exact_bounded(c) {
        Some(z) if c.ti.fits(&z) => is(Obs::VF(z, false)),
        _ => is(Obs::VF(pow_wrapped(c), true)),
    }
}
pub fn checked_pow<Z: ZNum>(c: &Ctx<Z>) -> Expect<Z> {
    match pow_exact_bounded(c) {
        Some(z) if c.ti.fits(&z) => is(Obs::OV(Some(z))),
        _ => is(Obs::OV(None)),
    }
}
pub fn wrapping_pow<Z: ZNum>(c: &Ctx<Z>) -> Expect<Z> {
    match pow_exact_bounded(c) {
        Some(z) if c.ti.fits(&z) => is(Obs::V(z)),
        _ => is(Obs::V(pow_wrapped(c))),
    }
}
pub fn saturating_pow<Z: ZNum>(c: &Ctx<Z>) -> Expect<Z> {
    match pow_exact_bounded(c) {
        Some(z) if c.ti.fits(&z) => is(Obs::V(z)),
        _ => is(Obs::V(if pow_negative(c) { c.min() } else { c.max() })),
    }
}
pub fn strict_pow<Z: ZNum>(c: &Ctx<Z>) -> Expect<Z> {
    match pow_exact_bounded(c) {
        Some(z) if c.ti.fits(&z) => is(Obs::V(z)),
        _ => is(Obs::Panic),
    }
}
pub fn pow<Z: ZNum>(c: &Ctx<Z>) -> Expect<Z> {
    match pow_exact_bounded(c) {
        Some(z) if c.ti.fits(&z) => is(Obs::V(z)),
        _ => {
            if c.debug {
                is(Obs::Panic)
            } else {
                is(Obs::V(pow_wrapped(c)))
            }
        }
    }
}
/// greatest k with b^k <= x  (x >= 1, b >= 2): binary search on k, each probe an exact power with
/// early exit once it exceeds the bit length of x
pub fn ilog_exact<Z: ZNum>(x: &Z, b: &Z) -> u64 {
    // b^k <= x  =>  k * (bitlen(b) - 1) < bitlen(x)
    let bl = x.bit_len();
    let step = b.bit_len() - 1; // >= 1 because b >= 2
    let mut lo = 0u64;
    let mut hi = bl / step + 1;
    let le = |k: u64| -> bool {
        // b^k <= x ?
        let mut acc = Z::zi(1);
        let mut base = b.clone();
        let mut e = k;
        loop {
            if e & 1 == 1 {
                acc = acc.zmul(&base);
                if acc.bit_len() > bl {
                    return false;
                }
            }
            e >>= 1;
            if e == 0 {
                break;
            }
            base = base.zmul(&base);
            if base.bit_len() > bl + 1 {
                // any further multiplication by base exceeds x
                return false;
            }
        }
        acc <= *x
    };
    while lo < hi {
        let mid = lo + (hi - lo + 1) / 2;
        if le(mid) {
            lo = mid;
        } else {
            hi = mid - 1;
        }
    }
    lo
}
fn log_defined<Z: ZNum>(c: &Ctx<Z>, base: &Z) -> bool {
    !c.a().is_neg() && !c.a().is_zero() && *base >= Z::zi(2)
}
pub fn checked_ilog<Z: ZNum>(c: &Ctx<Z>) -> Expect<Z> {
    if !log_defined(c, c.b()) {
        return is(Obs::ON(None));
    }
    is(Obs::ON(Some(ilog_exact(c.a(), c.b()))))
}
pub fn checked_ilog2<Z: ZNum>(c: &Ctx<Z>) -> Expect<Z> {
    if !log_defined(c, &Z::zi(2)) {
        return is(Obs::ON(None));
    }
    is(Obs::ON(Some(c.a().bit_len() - 1)))
}
pub fn checked_ilog10<Z: ZNum>(c: &Ctx<Z>) -> Expect<Z> {
    if !log_defined(c, &Z::zi(10)) {
        return is(Obs::ON(None));
    }
    is(Obs::ON(Some(ilog_exact(c.a(), &Z::zi(10)))))
}
/// unsuffixed forms panic (both build modes) where the checked forms return None
pub fn ilog<Z: ZNum>(c: &Ctx<Z>) -> Expect<Z> {
    if !log_defined(c, c.b()) {
        return is(Obs::Panic);
    }
    is(Obs::N(ilog_exact(c.a(), c.b())))
}
pub fn ilog2<Z: ZNum>(c: &Ctx<Z>) -> Expect<Z> {
    if !log_defined(c, &Z::zi(2)) {
        return is(Obs::Panic);
    }
    is(Obs::N(c.a().bit_len() - 1))
}
pub fn ilog10<Z: ZNum>(c: &Ctx<Z>) -> Expect<Z> {
    if !log_defined(c, &Z::zi(10)) {
        return is(Obs::Panic);
    }
    is(Obs::N(ilog_exact(c.a(), &Z::zi(10))))
}

// ---- variants restricted to what one property states -----------------------------------
/// next_multiple_of on states where the result is representable (overflow behaviour is C04's)
pub fn next_multiple_of_representable<Z: ZNum>(c: &Ctx<Z>) -> Expect<Z> {
    match next_multiple_of(c) {
        Expect::Is(Obs::V(z)) if c.ti.fits(&x_next_multiple(c)) => Expect::Is(Obs::V(z)),
        Expect::Is(Obs::Panic) if c.b().is_zero() => Expect::Is(Obs::Panic),
        Expect::Unspec => Expect::Unspec,
        _ => Expect::Skip,
    }
}
/// unsuffixed pow on states where a^e is representable
pub fn pow_representable<Z: ZNum>(c: &Ctx<Z>) -> Expect<Z> {
    match pow_exact_bounded(c) {
        Some(z) if c.ti.fits(&z) => is(Obs::V(z)),
        _ => Expect::Skip,
    }
}

/// two consecutive set_bit calls: aux = i1 | v1<<16 | i2<<17 | v2<<33
pub fn set_bit_twice<Z: ZNum>(c: &Ctx<Z>) -> Expect<Z> {
    let (i1, v1, i2, v2) = (c.aux & 0xffff, (c.aux >> 16) & 1 == 1, (c.aux >> 17) & 0xffff, (c.aux >> 33) & 1 == 1);
    if i1 >= c.bits() || i2 >= c.bits() {
        return Expect::Unspec;
    }
    let mut bv = bitvec(c, 0);
    bv[i1 as usize] = v1;
    bv[i2 as usize] = v2;
    let mut bytes = vec![0u8; bv.len() / 8];
    for (i, b) in bv.iter().enumerate() {
        if *b {
            bytes[i / 8] |= 1 << (i % 8);
        }
    }
    is(Obs::V(from_pat_bytes(c, &bytes)))
}

// =============================== C04 / C17: typed shift amounts ===========================
thread_local! {
    static CAND: std::cell::RefCell<(u32, Vec<crate::sets::Amt>)> = std::cell::RefCell::new((0, Vec::new()));
}
pub fn shift_candidate(bits: u32, idx: u64) -> crate::sets::Amt {
    CAND.with(|c| {
        let mut c = c.borrow_mut();
        if c.0 != bits {
            *c = (bits, crate::sets::shift_candidates(bits));
        }
        c.1[idx as usize]
    })
}
/// `x << rhs` / `x >> rhs` for rhs of a primitive integer type; aux = index of the amount in
/// `shift_candidates(BITS)`.  Debug builds: panic iff the amount is negative or >= BITS.
/// Release builds: the shift by `(rhs as u32)`, wrapped like the u32 operator.
fn typed_shift<Z: ZNum>(c: &Ctx<Z>, left: bool) -> Expect<Z> {
    let amt = shift_candidate(c.ti.bits, c.aux);
    let in_range = !amt.neg && amt.mag < c.bits() as u128;
    let mut c2 = Ctx::new(c.ti, c.r, if in_range { amt.mag as u64 } else { amt.low32() as u64 }, c.debug);
    if in_range {
        c2.debug = false;
        return if left { shl(&c2) } else { shr(&c2) };
    }
    if c.debug {
        return is(Obs::Panic);
    }
    if left {
        shl(&c2)
    } else {
        shr(&c2)
    }
}
pub fn shl_typed<Z: ZNum>(c: &Ctx<Z>) -> Expect<Z> {
    typed_shift(c, true)
}
pub fn shr_typed<Z: ZNum>(c: &Ctx<Z>) -> Expect<Z> {
    typed_shift(c, false)
}
/// never panics, whatever it returns
pub fn no_panic<Z: ZNum>(_c: &Ctx<Z>) -> Expect<Z> {
    Expect::NoPanic
}
/// panics exactly for a zero divisor (wrapping_/overflowing_/saturating_ div and rem forms)
pub fn panic_iff_zero_divisor<Z: ZNum>(c: &Ctx<Z>) -> Expect<Z> {
    if c.b().is_zero() {
        is(Obs::Panic)
    } else {
        Expect::NoPanic
    }
}

// =============================== C09 =====================================================
/// same bit pattern read as the signed type of the same width
pub fn reinterpret_signed<Z: ZNum>(c: &Ctx<Z>) -> Expect<Z> {
    is(Obs::V(c.as_signed(0)))
}
/// same bit pattern read as the unsigned type of the same width
pub fn reinterpret_unsigned<Z: ZNum>(c: &Ctx<Z>) -> Expect<Z> {
    is(Obs::V(c.as_unsigned(0)))
}

/// differential operations report B(true) when both forms agree
pub fn always_true<Z: ZNum>(_c: &Ctx<Z>) -> Expect<Z> {
    is(Obs::B(true))
}

// =============================== C18: num_traits / num_integer =============================
fn zgcd<Z: ZNum>(a: &Z, b: &Z) -> Z {
    let (mut x, mut y) = (a.zabs(), b.zabs());
    while !y.is_zero() {
        let r = x.divrem_trunc(&y).1;
        x = y;
        y = r;
    }
    x
}
fn fits_or_unspec<Z: ZNum>(c: &Ctx<Z>, z: Z) -> Expect<Z> {
    if c.ti.fits(&z) {
        is(Obs::V(z))
    } else {
        Expect::Unspec
    }
}
/// Integer::div_floor: rounds toward negative infinity
pub fn nt_div_floor<Z: ZNum>(c: &Ctx<Z>) -> Expect<Z> {
    if c.b().is_zero() {
        return is(Obs::Panic);
    }
    if c.div_overflows() {
        return Expect::Unspec;
    }
    is(Obs::V(quot(c, DivKind::Floor)))
}
/// Integer::mod_floor: remainder with the sign of the divisor
pub fn nt_mod_floor<Z: ZNum>(c: &Ctx<Z>) -> Expect<Z> {
    if c.b().is_zero() {
        return is(Obs::Panic);
    }
    if c.div_overflows() {
        return Expect::Unspec;
    }
    is(Obs::V(remd(c, DivKind::Floor)))
}
/// Integer::div_rem: truncated
pub fn nt_div_rem<Z: ZNum>(c: &Ctx<Z>) -> Expect<Z> {
    if c.b().is_zero() {
        return is(Obs::Panic);
    }
    if c.div_overflows() {
        return Expect::Unspec;
    }
    is(Obs::P(quot(c, DivKind::Trunc), remd(c, DivKind::Trunc)))
}
pub fn nt_div_mod_floor<Z: ZNum>(c: &Ctx<Z>) -> Expect<Z> {
    if c.b().is_zero() {
        return is(Obs::Panic);
    }
    if c.div_overflows() {
        return Expect::Unspec;
    }
    is(Obs::P(quot(c, DivKind::Floor), remd(c, DivKind::Floor)))
}
pub fn nt_div_ceil<Z: ZNum>(c: &Ctx<Z>) -> Expect<Z> {
    if c.b().is_zero() {
        return is(Obs::Panic);
    }
    if c.div_overflows() {
        return Expect::Unspec;
    }
    fits_or_unspec(c, quot(c, DivKind::Ceil))
}
/// non-negative greatest common divisor, when representable
pub fn nt_gcd<Z: ZNum>(c: &Ctx<Z>) -> Expect<Z> {
    fits_or_unspec(c, zgcd(c.a(), c.b()))
}
/// least common multiple (non-negative), when representable
pub fn nt_lcm<Z: ZNum>(c: &Ctx<Z>) -> Expect<Z> {
    if c.a().is_zero() || c.b().is_zero() {
        return is(Obs::V(Z::zi(0)));
    }
    let g = zgcd(c.a(), c.b());
    let l = c.a().zabs().divrem_trunc(&g).0.zmul(&c.b().zabs());
    fits_or_unspec(c, l)
}
pub fn nt_is_even<Z: ZNum>(c: &Ctx<Z>) -> Expect<Z> {
    is(Obs::B(c.a().is_even()))
}
pub fn nt_is_odd<Z: ZNum>(c: &Ctx<Z>) -> Expect<Z> {
    is(Obs::B(!c.a().is_even()))
}
/// is_multiple_of / divides; a zero argument is not documented by the trait
pub fn nt_is_multiple_of<Z: ZNum>(c: &Ctx<Z>) -> Expect<Z> {
    if c.b().is_zero() || c.div_overflows() {
        return Expect::Unspec;
    }
    is(Obs::B(remd(c, DivKind::Trunc).is_zero()))
}
/// provided next_multiple_of / prev_multiple_of: checked for a positive argument
pub fn nt_next_multiple_of<Z: ZNum>(c: &Ctx<Z>) -> Expect<Z> {
    if c.b().is_zero() || c.b().is_neg() {
        return Expect::Unspec;
    }
    fits_or_unspec(c, quot(c, DivKind::Ceil).zmul(c.b()))
}
pub fn nt_prev_multiple_of<Z: ZNum>(c: &Ctx<Z>) -> Expect<Z> {
    if c.b().is_zero() || c.b().is_neg() {
        return Expect::Unspec;
    }
    fits_or_unspec(c, quot(c, DivKind::Floor).zmul(c.b()))
}
/// integer r of largest magnitude with |r^n| <= |x|, sign preserved for odd n; n = aux
fn root<Z: ZNum>(c: &Ctx<Z>, n: u64) -> Expect<Z> {
    if n == 0 {
        return Expect::Unspec;
    }
    let a = c.a();
    if a.is_neg() && n % 2 == 0 {
        // even root of a negative number: not defined by the trait (it panics)
        return Expect::Unspec;
    }
    let r = Z::from_big(&a.zabs().to_big().nth_root_floor(n));
    is(Obs::V(if a.is_neg() { r.zneg() } else { r }))
}
pub fn nt_sqrt<Z: ZNum>(c: &Ctx<Z>) -> Expect<Z> {
    root(c, 2)
}
pub fn nt_cbrt<Z: ZNum>(c: &Ctx<Z>) -> Expect<Z> {
    root(c, 3)
}
pub fn nt_nth_root<Z: ZNum>(c: &Ctx<Z>) -> Expect<Z> {
    root(c, c.aux)
}
/// Signed::abs (MIN is not defined by the trait), abs_sub, signum
pub fn nt_abs<Z: ZNum>(c: &Ctx<Z>) -> Expect<Z> {
    fits_or_unspec(c, c.a().zabs())
}
pub fn nt_abs_sub<Z: ZNum>(c: &Ctx<Z>) -> Expect<Z> {
    if c.a() <= c.b() {
        is(Obs::V(Z::zi(0)))
    } else {
        fits_or_unspec(c, c.a().zsub(c.b()))
    }
}
/// PrimInt::signed_shr on any type: arithmetic shift of the pattern read as signed (n < BITS)
pub fn nt_signed_shr<Z: ZNum>(c: &Ctx<Z>) -> Expect<Z> {
    if c.aux >= c.bits() {
        return Expect::Unspec;
    }
    let s = c.as_signed(0).zshr_floor(c.aux);
    is(Obs::V(c.ti.wrap(&s.mod_pow2(c.bits()))))
}
/// PrimInt::unsigned_shr on any type: logical shift of the pattern (n < BITS)
pub fn nt_unsigned_shr<Z: ZNum>(c: &Ctx<Z>) -> Expect<Z> {
    if c.aux >= c.bits() {
        return Expect::Unspec;
    }
    let s = c.pat(0).zshr_floor(c.aux);
    is(Obs::V(c.ti.wrap(&s)))
}
/// PrimInt::signed_shl / unsigned_shl: the bits shift left (n < BITS)
pub fn nt_shl<Z: ZNum>(c: &Ctx<Z>) -> Expect<Z> {
    if c.aux >= c.bits() {
        return Expect::Unspec;
    }
    is(Obs::V(x_shl(c, c.aux)))
}

//! Value sets (initial register contents) and derived parameter sets.  Values are little-endian
//! byte images of exactly BYTES bytes.

use std::collections::HashSet;

pub fn splitmix(mut x: u64) -> u64 {
    x = x.wrapping_add(0x9E3779B97F4A7C15);
    let mut z = x;
    z = (z ^ (z >> 30)).wrapping_mul(0xBF58476D1CE4E5B9);
    z = (z ^ (z >> 27)).wrapping_mul(0x94D049BB133111EB);
    z ^ (z >> 31)
}

pub fn seed() -> u64 {
    std::env::var("VERIF_SEED").ok().and_then(|s| s.trim().parse::<u64>().ok()).unwrap_or(0)
}

fn mask(w: u32) -> u64 {
    if w == 64 {
        u64::MAX
    } else {
        (1u64 << w) - 1
    }
}

/// per-digit boundary alphabet, simplest first (18 values before dedup)
pub fn digit_alphabet(w: u32) -> Vec<u64> {
    let m = mask(w);
    let h = w / 2;
    let s = seed();
    // g1: top bit set and, for digits of at least 16 bits, low half above high half (a normalised
    // divisor digit of "ordinary" shape); g2: unconstrained
    let mut g1 = (splitmix(s ^ 0x1234_5678_9abc_def0 ^ w as u64) & m) | (1u64 << (w - 1));
    if w >= 16 {
        let hm = (1u64 << h) - 1;
        let (mut hi, mut lo) = (g1 >> h, g1 & hm);
        if lo <= hi {
            if hi == hm {
                hi -= 1;
            }
            // keep the generic low half if it can be made larger by setting its top bit, else hi + 1
            lo = if (lo | (1u64 << (h - 1))) > hi { lo | (1u64 << (h - 1)) } else { hi + 1 };
        }
        g1 = (hi << h) | lo;
    }
    let g2 = splitmix(s ^ 0x0fed_cba9_8765_4321 ^ ((w as u64) << 8)) & m;
    // simplest first; one generic digit among the first eight (N = 3 grids) and both among the first
    // fourteen (N = 2 grids), so that the products also contain "ordinary-looking" digits
    let raw = vec![
        0,
        1,
        m,
        1u64 << (w - 1),
        g1,
        (1u64 << (w - 1)) - 1,
        2,
        m - 1,
        (1u64 << (w - 1)) + 1,
        3,
        g2,
        (1u64 << h) - 1,
        1u64 << h,
        (1u64 << h) + 1,
        10,
        m - 2,
        m / 3,
        (m / 3) * 2,
    ];
    let mut seen = HashSet::new();
    raw.into_iter().filter(|v| seen.insert(*v)).collect()
}

/// inverse of an odd digit modulo 2^w (Newton iteration)
fn inv_mod_pow2(a: u64, w: u32) -> u64 {
    debug_assert!(a & 1 == 1);
    let mut x = a; // correct to 3 bits
    for _ in 0..6 {
        x = x.wrapping_mul(2u64.wrapping_sub(a.wrapping_mul(x)));
    }
    x & mask(w)
}

/// **Product-landmark digits**: digits whose pairwise double-width products have *boundary halves*
/// (the digit-level boundary of a multiply-accumulate or of a quotient-digit estimate is a boundary of
/// the product, not of the factors): factor pairs of 2^w - 1 (high half 0, low half all ones) and of
/// 2^w + 1 (high half = low half; the Fermat-number factorisations), their largest multiples below 2^w,
/// and modular inverses of small / generic odd digits (low half exactly 1 or all ones).
pub fn landmark_digits(w: u32) -> Vec<u64> {
    let m = mask(w);
    // prime factors of 2^w - 1 and 2^w + 1
    let (minus, plus): (&[u64], &[u64]) = match w {
        8 => (&[3, 5, 17], &[257]),
        16 => (&[3, 5, 17, 257], &[65537]),
        32 => (&[3, 5, 17, 257, 65537], &[641, 6700417]),
        64 => (&[3, 5, 17, 257, 641, 65537, 6700417], &[274177, 67280421310721]),
        _ => (&[], &[]),
    };
    let mut out: Vec<u64> = Vec::new();
    // (p, (2^w - 1) / p) and the balanced pair (2^(w/2) - 1, 2^(w/2) + 1)
    for &p in minus {
        out.push(p);
        out.push(m / p);
    }
    out.push((1u64 << (w / 2)) - 1);
    out.push((1u64 << (w / 2)) + 1);
    // factors of 2^w + 1 (when both fit in a digit), the largest multiple below 2^w and a small multiple
    if plus.len() == 2 {
        for &p in plus {
            out.push(p);
            out.push(p * (m / p));
            out.push(p.wrapping_mul(3) & m);
        }
    }
    // modular inverses: a * inv(a) = 1 (mod 2^w), a * (-inv(a)) = -1 (mod 2^w)
    let g1 = digit_alphabet(w)[4] | 1;
    let g2 = digit_alphabet(w).get(10).copied().unwrap_or(7) | 1;
    for a in [3u64, 5, 7, 11, g1, g2] {
        let a = a & m;
        let i = inv_mod_pow2(a, w);
        out.push(a);
        out.push(i);
        out.push(i.wrapping_neg() & m);
    }
    let mut seen = HashSet::new();
    out.into_iter().filter(|v| *v <= m && seen.insert(*v)).collect()
}

/// landmark grid: every digit position takes a landmark digit or one of {0, 1, 2^w - 1}
pub fn landmark_grid(w: u32, n: usize, k: usize) -> Vec<Vec<u8>> {
    let mut alpha: Vec<u64> = vec![0, 1, mask(w)];
    for d in landmark_digits(w) {
        if !alpha.contains(&d) {
            alpha.push(d);
        }
    }
    alpha.truncate(k.max(3));
    let k = alpha.len();
    let total = (k as u64).pow(n as u32);
    let mut out = Vec::with_capacity(total as usize);
    for mut idx in 0..total {
        let mut v = Vec::with_capacity(n * (w / 8) as usize);
        for _ in 0..n {
            push_digit(&mut v, alpha[(idx % k as u64) as usize], w);
            idx /= k as u64;
        }
        out.push(v);
    }
    out
}

fn push_digit(out: &mut Vec<u8>, d: u64, w: u32) {
    for j in 0..(w / 8) {
        out.push((d >> (8 * j)) as u8);
    }
}

pub fn dedup(v: Vec<Vec<u8>>) -> Vec<Vec<u8>> {
    let mut seen = HashSet::new();
    v.into_iter().filter(|x| seen.insert(x.clone())).collect()
}

/// all values of a type of `bits` bits (bits <= 24)
pub fn full(bits: u32) -> Vec<Vec<u8>> {
    assert!(bits <= 24 && bits % 8 == 0);
    let nb = (bits / 8) as usize;
    (0..(1u64 << bits)).map(|v| v.to_le_bytes()[..nb].to_vec()).collect()
}

/// Cartesian product over the n digits of the first k alphabet elements
pub fn grid(w: u32, n: usize, k: usize) -> Vec<Vec<u8>> {
    let alpha: Vec<u64> = digit_alphabet(w).into_iter().take(k).collect();
    let k = alpha.len();
    let total = (k as u64).pow(n as u32);
    let mut out = Vec::with_capacity(total as usize);
    for mut idx in 0..total {
        let mut v = Vec::with_capacity(n * (w / 8) as usize);
        for _ in 0..n {
            push_digit(&mut v, alpha[(idx % k as u64) as usize], w);
            idx /= k as u64;
        }
        out.push(v);
    }
    out
}

fn from_bits_fn(bytes: usize, f: impl Fn(u32) -> bool) -> Vec<u8> {
    let mut v = vec![0u8; bytes];
    for i in 0..(bytes * 8) {
        if f(i as u32) {
            v[i / 8] |= 1 << (i % 8);
        }
    }
    v
}

/// 2^i, 2^i - 1, !(2^i - 1), !(2^i) for selected i, and digit-run masks
pub fn masks(w: u32, n: usize, every_bit: bool) -> Vec<Vec<u8>> {
    let bits = w * n as u32;
    let bytes = (bits / 8) as usize;
    let mut idx: Vec<u32> = Vec::new();
    if every_bit {
        idx.extend(0..bits);
    } else {
        for d in 0..n as u32 {
            for o in [0, 1, w / 2, w - 2, w - 1] {
                idx.push(d * w + o);
            }
        }
    }
    let mut out = Vec::new();
    for &i in &idx {
        out.push(from_bits_fn(bytes, |b| b == i));
        out.push(from_bits_fn(bytes, |b| b < i));
        out.push(from_bits_fn(bytes, |b| b >= i));
        out.push(from_bits_fn(bytes, |b| b != i));
        out.push(from_bits_fn(bytes, |b| b <= i));
        out.push(from_bits_fn(bytes, |b| b == i || b == 0));
    }
    // digit runs: digits i..j all ones
    if n <= 8 {
        for i in 0..n as u32 {
            for j in i..n as u32 {
                out.push(from_bits_fn(bytes, |b| b / w >= i && b / w <= j));
            }
        }
    }
    dedup(out)
}

/// small signed/unsigned constants: 0..=10, MAX.., and their negations / complements
pub fn smalls(bytes: usize) -> Vec<Vec<u8>> {
    let mut out = Vec::new();
    for v in 0..=10u8 {
        let mut p = vec![0u8; bytes];
        p[0] = v;
        out.push(p.clone());
        // two's complement negation
        let mut q: Vec<u8> = p.iter().map(|b| !b).collect();
        let mut i = 0;
        loop {
            let (s, c) = q[i].overflowing_add(1);
            q[i] = s;
            if !c || i + 1 == bytes {
                break;
            }
            i += 1;
        }
        out.push(q);
        // MAX - v, MIN + v of the signed reading
        let mut hi = vec![0xffu8; bytes];
        hi[bytes - 1] = 0x7f;
        let mut lo = vec![0u8; bytes];
        lo[bytes - 1] = 0x80;
        if v < 4 {
            // subtract v from hi, add v to lo (no carries past byte 0 for v < 4 ... keep simple)
            hi[0] = 0xff - v;
            lo[0] = v;
            out.push(hi);
            out.push(lo);
        }
    }
    dedup(out)
}

/// sparse shapes for wide types: background fill with up to 3 boundary digits
pub fn sparse(w: u32, n: usize, k: usize, max_replaced: usize) -> Vec<Vec<u8>> {
    let alpha: Vec<u64> = digit_alphabet(w).into_iter().take(k).collect();
    let mut pos: Vec<usize> = vec![0, 1, n / 2, n.saturating_sub(2), n - 1];
    pos.sort();
    pos.dedup();
    pos.retain(|p| *p < n);
    let mut out = Vec::new();
    let m = mask(w);
    for fill in [0u64, m] {
        let base: Vec<u64> = vec![fill; n];
        // 0, 1, 2, 3 replaced digits
        let mk = |digits: &[u64]| {
            let mut v = Vec::with_capacity(n * (w / 8) as usize);
            for d in digits {
                push_digit(&mut v, *d, w);
            }
            v
        };
        out.push(mk(&base));
        for (i, &p1) in pos.iter().enumerate() {
            for &a1 in &alpha {
                let mut d1 = base.clone();
                d1[p1] = a1;
                out.push(mk(&d1));
                if max_replaced < 2 {
                    continue;
                }
                for (j, &p2) in pos.iter().enumerate().skip(i + 1) {
                    for &a2 in alpha.iter().take(4) {
                        let mut d2 = d1.clone();
                        d2[p2] = a2;
                        out.push(mk(&d2));
                        if max_replaced < 3 {
                            continue;
                        }
                        for &p3 in pos.iter().skip(j + 1) {
                            for &a3 in alpha.iter().take(3) {
                                let mut d3 = d2.clone();
                                d3[p3] = a3;
                                out.push(mk(&d3));
                            }
                        }
                    }
                }
            }
        }
    }
    out.extend(masks(w, n, false));
    out.extend(smalls(n * (w / 8) as usize));
    dedup(out)
}

/// value set for the widest configurations (8192 bits: N = 1024 / 512 / 256 / 128): a few dozen values —
/// range ends, fills, *dense* digit patterns (every digit large / every digit generic, so that per-column
/// sums and counters over all N digits take their largest values), half-range runs, single bits and
/// sparse boundary digits at the ends and in the middle
pub fn huge(w: u32, n: usize) -> Vec<Vec<u8>> {
    let m = mask(w);
    let alpha = digit_alphabet(w);
    let (g1, g2) = (alpha[4], alpha.get(10).copied().unwrap_or(m / 5));
    let mk = |f: &dyn Fn(usize) -> u64| {
        let mut v = Vec::with_capacity(n * (w / 8) as usize);
        for i in 0..n {
            push_digit(&mut v, f(i) & m, w);
        }
        v
    };
    let top = 1u64 << (w - 1);
    let mut out: Vec<Vec<u8>> = vec![
        mk(&|_| 0),
        mk(&|i| (i == 0) as u64),
        mk(&|_| m),
        mk(&|i| if i == n - 1 { top } else { 0 }),
        mk(&|i| if i == n - 1 { top - 1 } else { m }),
        mk(&|i| if i == 0 { m - 1 } else { m }),
        mk(&|i| if i == 0 { 2 } else { 0 }),
        mk(&|_| g1),
        mk(&|_| g2),
        mk(&|_| m - 12),
        mk(&|_| m / 3),
        mk(&|_| (m / 3) * 2),
        mk(&|i| if i % 2 == 0 { g1 } else { m }),
        mk(&|i| (i as u64).wrapping_mul(0x9E3779B97F4A7C15) >> (64 - w) | 1),
        mk(&|i| if i < n / 2 { m } else { 0 }),
        mk(&|i| if i < n / 2 { 0 } else { m }),
        mk(&|i| if i == n / 2 { 1 } else { 0 }),
        mk(&|i| if i == n / 2 - 1 { top } else { 0 }),
        mk(&|i| if i == n - 1 { 1 } else { 0 }),
        mk(&|i| if i == n - 1 { m } else { 0 }),
        mk(&|i| if i == n - 1 { top | 1 } else if i == 0 { 1 } else { 0 }),
        mk(&|i| if i == 1 { g1 } else if i == 0 { g2 } else { 0 }),
        mk(&|i| if i == 0 { 10 } else { 0 }),
        mk(&|i| if i == 0 { 3 } else { 0 }),
        mk(&|i| if i == 0 { m } else { 0 }),
        mk(&|i| if i == 1 { 1 } else { 0 }),
        mk(&|i| if i == 0 { m - 2 } else if i == n - 1 { m >> 1 } else { m }),
        mk(&|i| if i + 2 >= n { 0 } else { g2 }),
        mk(&|i| if i < 2 { 0 } else { g1 }),
        mk(&|i| if i == n - 1 { top } else { g2 }),
        mk(&|i| if i == 0 { m - 9 } else { m }),
        mk(&|i| if i == n - 1 { top } else if i == 0 { 1 } else { 0 }),
    ];
    // dense values with digit counts around the 256-digit counter boundary (u8 column counters)
    for k in [255usize, 256, 257, 258] {
        if k < n {
            out.push(mk(&|i| if i < k { m } else { 0 }));
        }
    }
    dedup(out)
}

#[derive(Clone, Copy, PartialEq, Eq, Debug)]
pub enum Tier {
    Quick,
    Thorough,
}

/// the boundary-structured value set of a configuration (never FULL)
pub fn structured(w: u32, n: usize, tier: Tier) -> Vec<Vec<u8>> {
    let bytes = n * (w / 8) as usize;
    let mut out = match n {
        1 => {
            let mut v = grid(w, 1, 18);
            v.extend(masks(w, 1, true));
            v
        }
        2 => {
            let mut v = grid(w, 2, 14);
            v.extend(masks(w, 2, w <= 16));
            v
        }
        3 => {
            let mut v = grid(w, 3, if tier == Tier::Thorough { 14 } else { 8 });
            v.extend(masks(w, 3, w <= 8));
            v
        }
        4 => {
            let mut v = grid(w, 4, if tier == Tier::Thorough { 6 } else { 5 });
            v.extend(masks(w, 4, false));
            v
        }
        _ if n > 100 => return huge(w, n),
        _ => sparse(w, n, if tier == Tier::Thorough { 6 } else { 4 }, if tier == Tier::Thorough { 3 } else { 2 }),
    };
    out.extend(smalls(bytes));
    dedup(out)
}

/// a smaller structured set, for the second operand of expensive products
pub fn structured_small(w: u32, n: usize, tier: Tier) -> Vec<Vec<u8>> {
    let bytes = n * (w / 8) as usize;
    let k = match (n, tier) {
        (1, _) => 18,
        (2, Tier::Quick) => 8,
        (2, Tier::Thorough) => 14,
        (3, Tier::Quick) => 4,
        (3, Tier::Thorough) => 8,
        (4, Tier::Quick) => 3,
        (4, Tier::Thorough) => 4,
        _ => 0,
    };
    if n > 100 {
        return huge(w, n).into_iter().take(14).collect();
    }
    let mut out = if n <= 4 { grid(w, n, k) } else { sparse(w, n, 3, 1) };
    out.extend(smalls(bytes).into_iter().take(12));
    dedup(out)
}

/// shift / rotate amounts
pub fn shift_amounts(bits: u32, w: u32, tier: Tier) -> Vec<u64> {
    let mut v: Vec<u64> = Vec::new();
    if bits <= 64 || (tier == Tier::Thorough && bits <= 512) {
        v.extend(0..=(bits as u64 + 2));
    } else {
        for k in 0..=(bits / w) as u64 {
            for d in [-1i64, 0, 1] {
                let s = k as i64 * w as i64 + d;
                if s >= 0 {
                    v.push(s as u64);
                }
            }
        }
        v.extend([2, 3, 7, 9, bits as u64 / 2, bits as u64 + 2]);
    }
    let b = bits as u64;
    v.extend([2 * b - 1, 2 * b, 2 * b + 1, 3 * b, 255, 256, 257, 1 << 16, 1 << 31, (1 << 32) - 2, (1u64 << 32) - 1]);
    v.extend([b.next_power_of_two(), b.next_power_of_two() + 1, b.next_power_of_two() * 2 - 1]);
    v.sort();
    v.dedup();
    v.retain(|s| *s <= u32::MAX as u64);
    v
}

/// exponents for pow
pub fn exponents(bits: u32, tier: Tier) -> Vec<u64> {
    let mut v: Vec<u64> = Vec::new();
    let lim = if tier == Tier::Thorough { bits as u64 + 1 } else { (bits as u64 + 1).min(66) };
    v.extend(0..=lim);
    v.extend([bits as u64 - 1, bits as u64, bits as u64 + 1]);
    for j in 0..32 {
        let p = 1u64 << j;
        v.extend([p - 1, p, p + 1]);
    }
    v.extend([(1u64 << 32) - 2, (1u64 << 32) - 1]);
    v.sort();
    v.dedup();
    v.retain(|s| *s <= u32::MAX as u64);
    v
}

/// a shift amount of any primitive integer type: sign and magnitude
#[derive(Clone, Copy, Debug, PartialEq, Eq)]
pub struct Amt {
    pub neg: bool,
    pub mag: u128,
}
impl Amt {
    /// low 32 bits of the two's complement image (`as u32`)
    pub fn low32(&self) -> u32 {
        let m = (self.mag & 0xffff_ffff) as u32;
        if self.neg {
            m.wrapping_neg()
        } else {
            m
        }
    }
    /// representable in a type with the given |MIN| and MAX
    pub fn fits(&self, min_mag: u128, max: u128) -> bool {
        if self.neg {
            self.mag <= min_mag
        } else {
            self.mag <= max
        }
    }
}

/// candidate shift amounts for the typed `<<` / `>>` operators (superset over all rhs types);
/// an operation's aux value is an index into this list
pub fn shift_candidates(bits: u32) -> Vec<Amt> {
    let b = bits as u128;
    let mut pos: Vec<u128> = vec![0, 1, 2, 7, 8, 9, b / 2, b - 1, b, b + 1, 2 * b - 1, 2 * b, 2 * b + 1, 126, 127, 128, 129, 254, 255, 256, 257];
    for k in [15u32, 16, 31, 32, 63, 64, 127] {
        let p = 1u128 << k;
        pos.extend([p - 1, p, p + 1, p + b - 1, p + b, p + 3]);
    }
    pos.push(u128::MAX);
    pos.push(u128::MAX - 1);
    let mut neg: Vec<u128> = vec![1, 2, b - 1, b, b + 1, 127, 128, 129];
    for k in [7u32, 15, 31, 32, 63, 127] {
        let p = 1u128 << k;
        neg.extend([p - 1, p, p + 1]);
    }
    let mut out: Vec<Amt> = Vec::new();
    for m in pos {
        let a = Amt { neg: false, mag: m };
        if !out.contains(&a) {
            out.push(a);
        }
    }
    for m in neg {
        let a = Amt { neg: true, mag: m };
        if !out.contains(&a) {
            out.push(a);
        }
    }
    out
}

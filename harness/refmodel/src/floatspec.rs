//! Reference semantics of integer <-> IEEE-754 binary32 / binary64 casts (Rust's `as`), in exact
//! integer arithmetic.

use crate::big::BigRef;
use crate::znum::TypeInfo;

#[derive(Clone, Copy, Debug, PartialEq, Eq)]
pub struct FloatFmt {
    /// total bits (32 / 64)
    pub bits: u32,
    /// stored mantissa bits (23 / 52)
    pub mant: u32,
    /// exponent bits (8 / 11)
    pub exp: u32,
}
pub const F32: FloatFmt = FloatFmt { bits: 32, mant: 23, exp: 8 };
pub const F64: FloatFmt = FloatFmt { bits: 64, mant: 52, exp: 11 };

impl FloatFmt {
    pub fn bias(&self) -> i64 {
        (1i64 << (self.exp - 1)) - 1
    }
    pub fn max_exp(&self) -> i64 {
        self.bias()
    }
    pub fn inf_bits(&self, neg: bool) -> u64 {
        let e = ((1u64 << self.exp) - 1) << self.mant;
        e | if neg { 1u64 << (self.bits - 1) } else { 0 }
    }
}

/// nearest float to the integer z, ties to even; +-infinity beyond the largest finite value.
/// Returns the bit pattern.
pub fn int_to_float(z: &BigRef, f: FloatFmt) -> u64 {
    if z.is_zero() {
        return 0;
    }
    let neg = z.is_neg();
    let m = z.abs();
    let p = f.mant as u64 + 1; // precision incl. the hidden bit
    let l = m.bit_len();
    let (mut q, mut e) = if l <= p {
        // exact: normalise so that the hidden bit is at position p-1
        (m.shl(p - l), l as i64 - 1)
    } else {
        let shift = l - p;
        let q = m.shr_floor(shift);
        let guard = m.mag_bit(shift - 1);
        let sticky = m.mag_trailing_zeros() < shift - 1;
        let odd = !q.is_even();
        let q = if guard && (sticky || odd) { q.add(&BigRef::from_i128(1)) } else { q };
        (q, l as i64 - 1)
    };
    if q.bit_len() > p {
        // rounding carried into a new bit
        q = q.shr_floor(1);
        e += 1;
    }
    if e > f.max_exp() {
        return f.inf_bits(neg);
    }
    let qv = q.to_u128().expect("mantissa fits") as u64;
    let mant_field = qv & ((1u64 << f.mant) - 1);
    let biased = (e + f.bias()) as u64;
    (if neg { 1u64 << (f.bits - 1) } else { 0 }) | (biased << f.mant) | mant_field
}

#[derive(Clone, Debug, PartialEq, Eq)]
pub enum Decoded {
    Nan,
    Inf(bool),
    /// sign, integer part of the magnitude (truncated toward zero)
    Finite(bool, BigRef),
}

pub fn decode_trunc(bits: u64, f: FloatFmt) -> Decoded {
    let neg = (bits >> (f.bits - 1)) & 1 == 1;
    let e = (bits >> f.mant) & ((1u64 << f.exp) - 1);
    let m = bits & ((1u64 << f.mant) - 1);
    if e == (1u64 << f.exp) - 1 {
        return if m == 0 { Decoded::Inf(neg) } else { Decoded::Nan };
    }
    if e == 0 {
        // zero or subnormal: magnitude < 1
        return Decoded::Finite(neg, BigRef::zero());
    }
    let full = BigRef::from_u128(((1u64 << f.mant) | m) as u128);
    let sh = e as i64 - f.bias() - f.mant as i64; // value = full * 2^sh
    let mag = if sh >= 0 { full.shl(sh as u64) } else if -sh > 64 { BigRef::zero() } else { full.shr_floor((-sh) as u64) };
    Decoded::Finite(neg, mag)
}

/// `float as integer`: truncate toward zero, NaN -> 0, saturate at MIN / MAX
pub fn float_to_int(bits: u64, f: FloatFmt, ti: TypeInfo) -> BigRef {
    match decode_trunc(bits, f) {
        Decoded::Nan => BigRef::zero(),
        Decoded::Inf(neg) => {
            if neg {
                ti.min()
            } else {
                ti.max()
            }
        }
        Decoded::Finite(neg, mag) => {
            let v = if neg { mag.neg() } else { mag };
            ti.clamp(&v)
        }
    }
}

/// fast path of `float_to_int` for f32 and targets of at most 128 bits: (negative, magnitude)
pub fn f32_to_int_fast(bits: u32, tbits: u32, signed: bool) -> (bool, u128) {
    let neg = bits >> 31 == 1;
    let e = (bits >> 23) & 0xff;
    let m = bits & 0x7f_ffff;
    let (max_pos, max_neg): (u128, u128) = if signed {
        ((1u128 << (tbits - 1)) - 1, 1u128 << (tbits - 1))
    } else {
        (if tbits == 128 { u128::MAX } else { (1u128 << tbits) - 1 }, 0)
    };
    if e == 0xff {
        if m != 0 {
            return (false, 0);
        }
        return if neg { (max_neg != 0, max_neg) } else { (false, max_pos) };
    }
    if e < 127 {
        return (false, 0);
    }
    let full = (1u128 << 23) | m as u128;
    let sh = e as i32 - 127 - 23;
    // 2^128 and above saturate every target of at most 128 bits
    let mag: u128 = if sh >= 0 {
        if e as i32 - 127 >= 128 {
            u128::MAX
        } else {
            full << sh
        }
    } else {
        full >> (-sh)
    };
    let over = e as i32 - 127 >= 128;
    if neg {
        let lim = max_neg;
        let r = if over || mag > lim { lim } else { mag };
        (r != 0, r)
    } else {
        let r = if over || mag > max_pos { max_pos } else { mag };
        (false, r)
    }
}

/// structured float patterns: sign x every exponent x mantissa alphabet
pub fn structured_patterns(f: FloatFmt, dense: bool) -> Vec<u64> {
    let mb = f.mant;
    let mut mants: Vec<u64> = vec![0, 1, (1u64 << mb) - 1, (1u64 << mb) - 2];
    for i in 0..mb {
        let b = 1u64 << i;
        mants.push(b);
        mants.push(b - 1);
        mants.push(((1u64 << mb) - 1) & !(b - 1)); // all-ones prefix
        mants.push(((1u64 << mb) - 1) & !b);
        if dense {
            mants.push(b + 1);
            mants.push((((1u64 << mb) - 1) & !(b - 1)).wrapping_sub(1) & ((1u64 << mb) - 1));
        }
    }
    mants.push(0x5555_5555_5555_5555 & ((1u64 << mb) - 1));
    mants.push(0xAAAA_AAAA_AAAA_AAAA & ((1u64 << mb) - 1));
    mants.sort();
    mants.dedup();
    let mut out = Vec::with_capacity(mants.len() * (2 << f.exp));
    for s in 0..2u64 {
        for e in 0..(1u64 << f.exp) {
            for &m in &mants {
                out.push((s << (f.bits - 1)) | (e << mb) | m);
            }
        }
    }
    out
}

/// fast path of `float_to_int` for f64 and targets of at most 128 bits: (negative, magnitude)
pub fn f64_to_int_fast(bits: u64, tbits: u32, signed: bool) -> (bool, u128) {
    let neg = bits >> 63 == 1;
    let e = ((bits >> 52) & 0x7ff) as i32;
    let m = bits & ((1u64 << 52) - 1);
    let (max_pos, max_neg): (u128, u128) = if signed {
        ((1u128 << (tbits - 1)) - 1, 1u128 << (tbits - 1))
    } else {
        (if tbits == 128 { u128::MAX } else { (1u128 << tbits) - 1 }, 0)
    };
    if e == 0x7ff {
        if m != 0 {
            return (false, 0);
        }
        return if neg { (max_neg != 0, max_neg) } else { (false, max_pos) };
    }
    if e < 1023 {
        return (false, 0);
    }
    let full = (1u128 << 52) | m as u128;
    let exp = e - 1023; // value in [2^exp, 2^(exp+1))
    let over = exp >= 128;
    let mag: u128 = if over {
        u128::MAX
    } else if exp >= 52 {
        full << (exp - 52)
    } else {
        full >> (52 - exp)
    };
    if neg {
        let r = if over || mag > max_neg { max_neg } else { mag };
        (r != 0, r)
    } else {
        let r = if over || mag > max_pos { max_pos } else { mag };
        (false, r)
    }
}

fn main() {
    refmodel::silence_panics();
    match refmodel::prim::selfcheck(cfg!(debug_assertions)) {
        Ok((t, s)) => println!("self-check ok: {} transitions in {:.2}s", t, s),
        Err(e) => {
            println!("{}", e);
            std::process::exit(2)
        }
    }
}

//! Model self-check: spec functions vs Rust's primitive integers (exit 2 on disagreement).
fn main() {
    refmodel::engine::silence_panics();
    match refmodel::prim::selfcheck(cfg!(debug_assertions)) {
        Ok((t, s)) => println!("model self-check ok: {} transitions in {:.2}s (debug_assertions={})", t, s, cfg!(debug_assertions)),
        Err(e) => {
            println!("{}", e);
            std::process::exit(2)
        }
    }
}

//! Minimal JSON writer (no dependencies).

#[derive(Clone, Debug)]
pub enum J {
    Null,
    Bool(bool),
    Num(u64),
    Float(f64),
    Str(String),
    Arr(Vec<J>),
    Obj(Vec<(String, J)>),
}

impl J {
    pub fn s(x: &str) -> J {
        J::Str(x.to_string())
    }
    pub fn n(x: u64) -> J {
        J::Num(x)
    }
    pub fn f(x: f64) -> J {
        J::Float(x)
    }
    pub fn obj(v: Vec<(&str, J)>) -> J {
        J::Obj(v.into_iter().map(|(k, v)| (k.to_string(), v)).collect())
    }
    fn esc(s: &str, out: &mut String) {
        out.push('"');
        for c in s.chars() {
            match c {
                '"' => out.push_str("\\\""),
                '\\' => out.push_str("\\\\"),
                '\n' => out.push_str("\\n"),
                '\r' => out.push_str("\\r"),
                '\t' => out.push_str("\\t"),
                c if (c as u32) < 0x20 => out.push_str(&format!("\\u{:04x}", c as u32)),
                c => out.push(c),
            }
        }
        out.push('"');
    }
    fn write(&self, out: &mut String) {
        match self {
            J::Null => out.push_str("null"),
            J::Bool(b) => out.push_str(if *b { "true" } else { "false" }),
            J::Num(n) => out.push_str(&n.to_string()),
            J::Float(f) => {
                if f.is_finite() {
                    out.push_str(&format!("{:.3}", f))
                } else {
                    out.push_str("0")
                }
            }
            J::Str(s) => Self::esc(s, out),
            J::Arr(a) => {
                out.push('[');
                for (i, x) in a.iter().enumerate() {
                    if i > 0 {
                        out.push(',');
                    }
                    x.write(out);
                }
                out.push(']');
            }
            J::Obj(o) => {
                out.push('{');
                for (i, (k, v)) in o.iter().enumerate() {
                    if i > 0 {
                        out.push(',');
                    }
                    Self::esc(k, out);
                    out.push(':');
                    v.write(out);
                }
                out.push('}');
            }
        }
    }
}

impl std::fmt::Display for J {
    fn fmt(&self, f: &mut std::fmt::Formatter<'_>) -> std::fmt::Result {
        let mut s = String::new();
        self.write(&mut s);
        f.write_str(&s)
    }
}

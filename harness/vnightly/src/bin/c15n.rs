//! C15, nightly half: to_{be,le,ne}_bytes / from_{be,le,ne}_bytes are exact inverses producing the
//! two's-complement bytes.  Self-contained (the nightly feature needs generic_const_exprs, so this
//! binary is built with `cargo +nightly` and does not share the stable harness crates).
//! Output: one JSON object on stdout; exit 0 = held, 1 = violation (printed), 2 = machinery error.
#![allow(incomplete_features)]
#![feature(generic_const_exprs)]

use bnum::{BInt, BIntD16, BIntD32, BIntD8, BUint, BUintD16, BUintD32, BUintD8};

fn splitmix(mut x: u64) -> u64 {
    x = x.wrapping_add(0x9E3779B97F4A7C15);
    let mut z = x;
    z = (z ^ (z >> 30)).wrapping_mul(0xBF58476D1CE4E5B9);
    z = (z ^ (z >> 27)).wrapping_mul(0x94D049BB133111EB);
    z ^ (z >> 31)
}

/// byte images: every image over {00,01,7f,80,ff} for at most 3 bytes, structured ones beyond
fn images(nbytes: usize) -> Vec<Vec<u8>> {
    let alpha = [0x00u8, 0x01, 0x7f, 0x80, 0xff];
    let mut out: Vec<Vec<u8>> = Vec::new();
    if nbytes <= 2 {
        for v in 0..(1u32 << (8 * nbytes)) {
            out.push(v.to_le_bytes()[..nbytes].to_vec());
        }
        return out;
    }
    if nbytes <= 5 {
        let total = 5usize.pow(nbytes as u32);
        for mut idx in 0..total {
            let mut v = Vec::with_capacity(nbytes);
            for _ in 0..nbytes {
                v.push(alpha[idx % 5]);
                idx /= 5;
            }
            out.push(v);
        }
        return out;
    }
    // background fill with up to two distinguished bytes, plus a byte-distinct image and seeded ones
    for fill in [0x00u8, 0xff, 0x80, 0x01] {
        out.push(vec![fill; nbytes]);
        for p in [0, 1, nbytes / 2, nbytes - 2, nbytes - 1] {
            for b in alpha {
                let mut v = vec![fill; nbytes];
                v[p] = b;
                out.push(v.clone());
                for q in [0, nbytes - 1, 7usize.min(nbytes - 1), 8usize.min(nbytes - 1)] {
                    let mut w = v.clone();
                    w[q] = b ^ 0x55;
                    out.push(w);
                }
            }
        }
    }
    out.push((0..nbytes).map(|i| (i as u8).wrapping_mul(29).wrapping_add(3)).collect());
    for s in 0..64u64 {
        out.push((0..nbytes).map(|i| splitmix(s * 1000 + i as u64) as u8).collect());
    }
    out.sort();
    out.dedup();
    out
}

struct Stats {
    transitions: u64,
    states: u64,
    violations: Vec<String>,
    samples: Vec<String>,
}

macro_rules! check_type {
    ($st:expr, $T:ty, $U:ty, $name:expr, $digit:ty, $n:expr, $mk:expr) => {{
        const NB: usize = <$U>::BYTES as usize;
        for img in images(NB) {
            $st.states += 1;
            let mut le = [0u8; NB];
            le.copy_from_slice(&img);
            let mut be = le;
            be.reverse();
            // value with this two's-complement image, built independently through from_digits
            let mut digits = [0 as $digit; $n];
            let db = core::mem::size_of::<$digit>();
            for i in 0..$n {
                let mut d: $digit = 0;
                for j in 0..db {
                    d |= (le[i * db + j] as $digit) << (8 * j);
                }
                digits[i] = d;
            }
            let mk: fn($U) -> $T = $mk;
            let x: $T = mk(<$U>::from_digits(digits));
            let mut fail = |what: &str, got: String, want: String| {
                if $st.violations.len() < 20 {
                    $st.violations.push(format!("{} {} image(le)={:02x?}: got {} expected {}", $name, what, img, got, want));
                }
            };
            let t = x.to_le_bytes();
            if t != le { fail("to_le_bytes", format!("{:02x?}", t), format!("{:02x?}", le)); }
            let t = x.to_be_bytes();
            if t != be { fail("to_be_bytes", format!("{:02x?}", t), format!("{:02x?}", be)); }
            let t = x.to_ne_bytes();
            if t != le { fail("to_ne_bytes (little-endian target)", format!("{:02x?}", t), format!("{:02x?}", le)); }
            let y = <$T>::from_le_bytes(le);
            if y != x { fail("from_le_bytes", format!("{:?}", y), format!("{:?}", x)); }
            let y = <$T>::from_be_bytes(be);
            if y != x { fail("from_be_bytes", format!("{:?}", y), format!("{:?}", x)); }
            let y = <$T>::from_ne_bytes(le);
            if y != x { fail("from_ne_bytes (little-endian target)", format!("{:?}", y), format!("{:?}", x)); }
            // inverses both ways
            if <$T>::from_be_bytes(x.to_be_bytes()) != x { fail("from_be_bytes(to_be_bytes)", "different value".into(), "identity".into()); }
            if <$T>::from_le_bytes(le).to_le_bytes() != le { fail("to_le_bytes(from_le_bytes)", "different bytes".into(), "identity".into()); }
            $st.transitions += 8;
            if $st.samples.len() < 6 && $st.states % 97 == 1 {
                $st.samples.push(format!("{} {:02x?} -> to_be_bytes {:02x?}", $name, le, x.to_be_bytes()));
            }
        }
    }};
}

macro_rules! both {
    ($st:expr, $BU:ident, $BI:ident, $digit:ty, $n:expr, $tag:expr) => {{
        check_type!($st, $BU<$n>, $BU<$n>, format!("{}<{}>", stringify!($BU), $n), $digit, $n, |u| u);
        check_type!($st, $BI<$n>, $BU<$n>, format!("{}<{}>", stringify!($BI), $n), $digit, $n, <$BI<$n>>::from_bits);
        let _ = $tag;
    }};
}

fn main() {
    let t0 = std::time::Instant::now();
    let mut st = Stats { transitions: 0, states: 0, violations: Vec::new(), samples: Vec::new() };
    both!(st, BUintD8, BIntD8, u8, 1, "");
    both!(st, BUintD8, BIntD8, u8, 2, "");
    both!(st, BUintD8, BIntD8, u8, 3, "");
    both!(st, BUintD8, BIntD8, u8, 5, "");
    both!(st, BUintD8, BIntD8, u8, 17, "");
    both!(st, BUintD16, BIntD16, u16, 1, "");
    both!(st, BUintD16, BIntD16, u16, 2, "");
    both!(st, BUintD16, BIntD16, u16, 3, "");
    both!(st, BUintD32, BIntD32, u32, 1, "");
    both!(st, BUintD32, BIntD32, u32, 3, "");
    both!(st, BUint, BInt, u64, 1, "");
    both!(st, BUint, BInt, u64, 2, "");
    both!(st, BUint, BInt, u64, 3, "");
    both!(st, BUint, BInt, u64, 16, "");
    let esc = |s: &str| s.replace('\\', "\\\\").replace('"', "\\\"");
    let viol: Vec<String> = st.violations.iter().map(|v| format!("\"{}\"", esc(v))).collect();
    let samp: Vec<String> = st.samples.iter().map(|v| format!("\"{}\"", esc(v))).collect();
    println!(
        "{{\"states\":{},\"transitions\":{},\"violations\":{},\"violation_list\":[{}],\"samples\":[{}],\"wall_s\":{:.3},\"debug_assertions\":{}}}",
        st.states, st.transitions, st.violations.len(), viol.join(","), samp.join(","), t0.elapsed().as_secs_f64(), cfg!(debug_assertions)
    );
    std::process::exit(if st.violations.is_empty() { 0 } else { 1 });
}

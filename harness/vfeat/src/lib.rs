//! Checks for the feature-gated code of bnum (numtraits, rand): C18, C19, C20.
pub use refmodel::*;
pub use vcore::*;
pub use vengine::*;

pub mod c18;
pub mod c19;
pub mod c20;

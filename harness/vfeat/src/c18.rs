//! C18: num_traits / num_integer implementations.  Integer, Roots, Signed and the PrimInt shifts are
//! compared with the model; the forwarding impls are compared with the inherent methods.
use num_integer::{Integer, Roots};
use num_traits::ops::overflowing::{OverflowingAdd, OverflowingSub};
use num_traits::ops::saturating::{SaturatingAdd, SaturatingMul, SaturatingSub};
use num_traits::{Bounded, CheckedAdd, CheckedDiv, CheckedEuclid, CheckedMul, CheckedNeg, CheckedRem, CheckedShl, CheckedShr, CheckedSub, Euclid, MulAdd, MulAddAssign, Num, One, Pow, PrimInt, Saturating, Signed, WrappingAdd, WrappingMul, WrappingNeg, WrappingShl, WrappingShr, WrappingSub, Zero};
use refmodel::spec;
use refmodel::{Obs, ZNum};
use vengine::{bo, n, ov, pr, same, v, vf};
use vengine::{op, opn, Aux, Op};

macro_rules! model {
    ($T:ty) => {{
        let t: Vec<Op<$T, Z>> = vec![
            // ---- model-based: Integer -----------------------------------------------------------
            opn!("Integer::div_floor", 2, Aux::None, spec::nt_div_floor, |r, _x| v(Integer::div_floor(&r[0], &r[1]))),
            opn!("Integer::mod_floor", 2, Aux::None, spec::nt_mod_floor, |r, _x| v(Integer::mod_floor(&r[0], &r[1]))),
            opn!("Integer::div_rem", 2, Aux::None, spec::nt_div_rem, |r, _x| pr(Integer::div_rem(&r[0], &r[1]))),
            opn!("Integer::div_mod_floor", 2, Aux::None, spec::nt_div_mod_floor, |r, _x| pr(Integer::div_mod_floor(&r[0], &r[1]))),
            opn!("Integer::div_ceil", 2, Aux::None, spec::nt_div_ceil, |r, _x| v(Integer::div_ceil(&r[0], &r[1]))),
            op!("Integer::gcd", 2, Aux::None, spec::nt_gcd, |r, _x| v(Integer::gcd(&r[0], &r[1]))),
            op!("Integer::lcm", 2, Aux::None, spec::nt_lcm, |r, _x| v(Integer::lcm(&r[0], &r[1]))),
            op!("Integer::is_even", 1, Aux::None, spec::nt_is_even, |r, _x| bo(Integer::is_even(&r[0]))),
            op!("Integer::is_odd", 1, Aux::None, spec::nt_is_odd, |r, _x| bo(Integer::is_odd(&r[0]))),
            op!("Integer::is_multiple_of", 2, Aux::None, spec::nt_is_multiple_of, |r, _x| bo(Integer::is_multiple_of(&r[0], &r[1]))),
            op!("Integer::next_multiple_of", 2, Aux::None, spec::nt_next_multiple_of, |r, _x| v(Integer::next_multiple_of(&r[0], &r[1]))),
            op!("Integer::prev_multiple_of", 2, Aux::None, spec::nt_prev_multiple_of, |r, _x| v(Integer::prev_multiple_of(&r[0], &r[1]))),
            // ---- model-based: Roots -------------------------------------------------------------
            op!("Roots::sqrt", 1, Aux::None, spec::nt_sqrt, |r, _x| v(Roots::sqrt(&r[0]))),
            op!("Roots::cbrt", 1, Aux::None, spec::nt_cbrt, |r, _x| v(Roots::cbrt(&r[0]))),
            op!("Roots::nth_root", 1, Aux::K(21), spec::nt_nth_root, |r, x| v(Roots::nth_root(&r[0], x as u32))),
            // ---- model-based: PrimInt shifts ------------------------------------------------------
            op!("PrimInt::signed_shl", 1, Aux::BitIdx, spec::nt_shl, |r, x| v(PrimInt::signed_shl(r[0], x as u32))),
            op!("PrimInt::unsigned_shl", 1, Aux::BitIdx, spec::nt_shl, |r, x| v(PrimInt::unsigned_shl(r[0], x as u32))),
            op!("PrimInt::signed_shr", 1, Aux::BitIdx, spec::nt_signed_shr, |r, x| v(PrimInt::signed_shr(r[0], x as u32))),
            op!("PrimInt::unsigned_shr", 1, Aux::BitIdx, spec::nt_unsigned_shr, |r, x| v(PrimInt::unsigned_shr(r[0], x as u32))),
        ];
        t
    }};
}

macro_rules! fwd {
    ($T:ty) => {{
        let t: Vec<Op<$T, Z>> = vec![
            // ---- forwarders against the inherent methods ----------------------------------------
            op!("CheckedAdd", 2, Aux::None, spec::always_true, |r, _x| same(&|| ov(CheckedAdd::checked_add(&r[0], &r[1])), &|| ov(r[0].checked_add(r[1])))),
            op!("CheckedSub", 2, Aux::None, spec::always_true, |r, _x| same(&|| ov(CheckedSub::checked_sub(&r[0], &r[1])), &|| ov(r[0].checked_sub(r[1])))),
            op!("CheckedMul", 2, Aux::None, spec::always_true, |r, _x| same(&|| ov(CheckedMul::checked_mul(&r[0], &r[1])), &|| ov(r[0].checked_mul(r[1])))),
            op!("CheckedDiv", 2, Aux::None, spec::always_true, |r, _x| same(&|| ov(CheckedDiv::checked_div(&r[0], &r[1])), &|| ov(r[0].checked_div(r[1])))),
            op!("CheckedRem", 2, Aux::None, spec::always_true, |r, _x| same(&|| ov(CheckedRem::checked_rem(&r[0], &r[1])), &|| ov(r[0].checked_rem(r[1])))),
            op!("CheckedNeg", 1, Aux::None, spec::always_true, |r, _x| same(&|| ov(CheckedNeg::checked_neg(&r[0])), &|| ov(r[0].checked_neg()))),
            op!("CheckedShl", 1, Aux::Shift, spec::always_true, |r, x| same(&|| ov(CheckedShl::checked_shl(&r[0], x as u32)), &|| ov(r[0].checked_shl(x as u32)))),
            op!("CheckedShr", 1, Aux::Shift, spec::always_true, |r, x| same(&|| ov(CheckedShr::checked_shr(&r[0], x as u32)), &|| ov(r[0].checked_shr(x as u32)))),
            op!("CheckedEuclid::div", 2, Aux::None, spec::always_true, |r, _x| same(&|| ov(CheckedEuclid::checked_div_euclid(&r[0], &r[1])), &|| ov(r[0].checked_div_euclid(r[1])))),
            op!("CheckedEuclid::rem", 2, Aux::None, spec::always_true, |r, _x| same(&|| ov(CheckedEuclid::checked_rem_euclid(&r[0], &r[1])), &|| ov(r[0].checked_rem_euclid(r[1])))),
            op!("Euclid::div_euclid", 2, Aux::None, spec::always_true, |r, _x| same(&|| v(Euclid::div_euclid(&r[0], &r[1])), &|| v(r[0].div_euclid(r[1])))),
            op!("Euclid::rem_euclid", 2, Aux::None, spec::always_true, |r, _x| same(&|| v(Euclid::rem_euclid(&r[0], &r[1])), &|| v(r[0].rem_euclid(r[1])))),
            op!("WrappingAdd", 2, Aux::None, spec::always_true, |r, _x| same(&|| v(WrappingAdd::wrapping_add(&r[0], &r[1])), &|| v(r[0].wrapping_add(r[1])))),
            op!("WrappingSub", 2, Aux::None, spec::always_true, |r, _x| same(&|| v(WrappingSub::wrapping_sub(&r[0], &r[1])), &|| v(r[0].wrapping_sub(r[1])))),
            op!("WrappingMul", 2, Aux::None, spec::always_true, |r, _x| same(&|| v(WrappingMul::wrapping_mul(&r[0], &r[1])), &|| v(r[0].wrapping_mul(r[1])))),
            op!("WrappingNeg", 1, Aux::None, spec::always_true, |r, _x| same(&|| v(WrappingNeg::wrapping_neg(&r[0])), &|| v(r[0].wrapping_neg()))),
            op!("WrappingShl", 1, Aux::Shift, spec::always_true, |r, x| same(&|| v(WrappingShl::wrapping_shl(&r[0], x as u32)), &|| v(r[0].wrapping_shl(x as u32)))),
            op!("WrappingShr", 1, Aux::Shift, spec::always_true, |r, x| same(&|| v(WrappingShr::wrapping_shr(&r[0], x as u32)), &|| v(r[0].wrapping_shr(x as u32)))),
            op!("SaturatingAdd", 2, Aux::None, spec::always_true, |r, _x| same(&|| v(SaturatingAdd::saturating_add(&r[0], &r[1])), &|| v(r[0].saturating_add(r[1])))),
            op!("SaturatingSub", 2, Aux::None, spec::always_true, |r, _x| same(&|| v(SaturatingSub::saturating_sub(&r[0], &r[1])), &|| v(r[0].saturating_sub(r[1])))),
            op!("SaturatingMul", 2, Aux::None, spec::always_true, |r, _x| same(&|| v(SaturatingMul::saturating_mul(&r[0], &r[1])), &|| v(r[0].saturating_mul(r[1])))),
            op!("Saturating::add", 2, Aux::None, spec::always_true, |r, _x| same(&|| v(Saturating::saturating_add(r[0], r[1])), &|| v(r[0].saturating_add(r[1])))),
            op!("Saturating::sub", 2, Aux::None, spec::always_true, |r, _x| same(&|| v(Saturating::saturating_sub(r[0], r[1])), &|| v(r[0].saturating_sub(r[1])))),
            op!("OverflowingAdd", 2, Aux::None, spec::always_true, |r, _x| same(&|| vf(OverflowingAdd::overflowing_add(&r[0], &r[1])), &|| vf(r[0].overflowing_add(r[1])))),
            op!("OverflowingSub", 2, Aux::None, spec::always_true, |r, _x| same(&|| vf(OverflowingSub::overflowing_sub(&r[0], &r[1])), &|| vf(r[0].overflowing_sub(r[1])))),
            op!("Pow::pow", 1, Aux::Exp, spec::always_true, |r, x| same(&|| v(Pow::pow(r[0], x as u32)), &|| v(r[0].pow(x as u32)))),
            op!("PrimInt::pow", 1, Aux::Exp, spec::always_true, |r, x| same(&|| v(PrimInt::pow(r[0], x as u32)), &|| v(r[0].pow(x as u32)))),
            op!("MulAdd", 3, Aux::None, spec::always_true, |r, _x| same(&|| v(MulAdd::mul_add(r[0], r[1], r[2])), &|| v((r[0] * r[1]) + r[2]))),
            op!("MulAddAssign", 3, Aux::None, spec::always_true, |r, _x| same(&|| { let mut a = r[0]; MulAddAssign::mul_add_assign(&mut a, r[1], r[2]); v(a) }, &|| v((r[0] * r[1]) + r[2]))),
            op!("PrimInt::count_ones", 1, Aux::None, spec::always_true, |r, _x| same(&|| n(PrimInt::count_ones(r[0])), &|| n(r[0].count_ones()))),
            op!("PrimInt::count_zeros", 1, Aux::None, spec::always_true, |r, _x| same(&|| n(PrimInt::count_zeros(r[0])), &|| n(r[0].count_zeros()))),
            op!("PrimInt::leading_zeros", 1, Aux::None, spec::always_true, |r, _x| same(&|| n(PrimInt::leading_zeros(r[0])), &|| n(r[0].leading_zeros()))),
            op!("PrimInt::trailing_zeros", 1, Aux::None, spec::always_true, |r, _x| same(&|| n(PrimInt::trailing_zeros(r[0])), &|| n(r[0].trailing_zeros()))),
            op!("PrimInt::leading_ones", 1, Aux::None, spec::always_true, |r, _x| same(&|| n(PrimInt::leading_ones(r[0])), &|| n(r[0].leading_ones()))),
            op!("PrimInt::trailing_ones", 1, Aux::None, spec::always_true, |r, _x| same(&|| n(PrimInt::trailing_ones(r[0])), &|| n(r[0].trailing_ones()))),
            op!("PrimInt::rotate_left", 1, Aux::Shift, spec::always_true, |r, x| same(&|| v(PrimInt::rotate_left(r[0], x as u32)), &|| v(r[0].rotate_left(x as u32)))),
            op!("PrimInt::rotate_right", 1, Aux::Shift, spec::always_true, |r, x| same(&|| v(PrimInt::rotate_right(r[0], x as u32)), &|| v(r[0].rotate_right(x as u32)))),
            op!("PrimInt::swap_bytes", 1, Aux::None, spec::always_true, |r, _x| same(&|| v(PrimInt::swap_bytes(r[0])), &|| v(r[0].swap_bytes()))),
            op!("PrimInt::reverse_bits", 1, Aux::None, spec::always_true, |r, _x| same(&|| v(PrimInt::reverse_bits(r[0])), &|| v(r[0].reverse_bits()))),
            op!("PrimInt::to_be", 1, Aux::None, spec::always_true, |r, _x| same(&|| v(PrimInt::to_be(r[0])), &|| v(r[0].to_be()))),
            op!("PrimInt::from_be", 1, Aux::None, spec::always_true, |r, _x| same(&|| v(<$T as PrimInt>::from_be(r[0])), &|| v(<$T>::from_be(r[0])))),
            op!("Bounded/Zero/One", 1, Aux::None, spec::always_true, |r, _x| same(
                &|| Obs::T3(<$T as Bounded>::min_value().z(), <$T as Bounded>::max_value().z(), <$T as One>::one().z::<Z>().zadd(&<$T as Zero>::zero().z::<Z>())),
                &|| Obs::T3(<$T>::MIN.z(), <$T>::MAX.z(), <$T>::ONE.z::<Z>().zadd(&<$T>::ZERO.z::<Z>())))),
            op!("Zero::is_zero/One::is_one", 1, Aux::None, spec::always_true, |r, _x| same(&|| Obs::P(Z::zi(Zero::is_zero(&r[0]) as i128), Z::zi(One::is_one(&r[0]) as i128)), &|| Obs::P(Z::zi(r[0].is_zero() as i128), Z::zi(r[0].is_one() as i128)))),
            op!("Num::from_str_radix", 1, Aux::K(22), spec::always_true, |r, x| {
                let s = r[0].to_str_radix(x as u32);
                same(&|| Obs::R(<$T as Num>::from_str_radix(&s, x as u32).map(|t| t.z::<Z>()).map_err(|_| 1u8)), &|| Obs::R(<$T>::from_str_radix(&s, x as u32).map(|t| t.z::<Z>()).map_err(|_| 1u8)))
            }),
        ];
        t
    }};
}

macro_rules! tables {
    ($fam:ident, $BUint:ident, $BInt:ident, $Digit:ty) => {
        pub mod $fam {
            use super::*;
            use bnum::{$BInt, $BUint};
            use vengine::Subj;
            pub fn u<const N: usize, Z: ZNum>() -> Vec<Op<$BUint<N>, Z>> {
                model!($BUint<N>)
            }
            /// the Roots operations only (wide-root exploration)
            pub fn u_roots<const N: usize, Z: ZNum>() -> Vec<Op<$BUint<N>, Z>> {
                let mut t: Vec<Op<$BUint<N>, Z>> = model!($BUint<N>);
                t.retain(|o| o.name.starts_with("Roots::"));
                t
            }
            pub fn i_roots<const N: usize, Z: ZNum>() -> Vec<Op<$BInt<N>, Z>> {
                let mut t: Vec<Op<$BInt<N>, Z>> = model!($BInt<N>);
                t.retain(|o| o.name.starts_with("Roots::"));
                t
            }
            pub fn u_fwd<const N: usize, Z: ZNum>() -> Vec<Op<$BUint<N>, Z>> {
                fwd!($BUint<N>)
            }
            pub fn i_fwd<const N: usize, Z: ZNum>() -> Vec<Op<$BInt<N>, Z>> {
                fwd!($BInt<N>)
            }
            pub fn i<const N: usize, Z: ZNum>() -> Vec<Op<$BInt<N>, Z>> {
                let mut t = model!($BInt<N>);
                let more: Vec<Op<$BInt<N>, Z>> = vec![
                    op!("Signed::abs", 1, Aux::None, spec::nt_abs, |r, _x| v(Signed::abs(&r[0]))),
                    op!("Signed::abs_sub", 2, Aux::None, spec::nt_abs_sub, |r, _x| v(Signed::abs_sub(&r[0], &r[1]))),
                    op!("Signed::signum", 1, Aux::None, spec::signum, |r, _x| v(Signed::signum(&r[0]))),
                    op!("Signed::is_positive", 1, Aux::None, spec::is_positive, |r, _x| bo(Signed::is_positive(&r[0]))),
                    op!("Signed::is_negative", 1, Aux::None, spec::is_negative, |r, _x| bo(Signed::is_negative(&r[0]))),
                ];
                t.extend(more);
                t
            }
        }
    };
}
vcore::for_families!(tables);

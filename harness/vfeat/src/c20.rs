//! C20: random generation driven by scripted RNG streams (the RNG is the only nondeterminism and is
//! owned completely: every word the code under test sees comes from the script; after the script is
//! exhausted the RNG serves zeros, which every range accepts, so rejection loops terminate).
use rand::distributions::uniform::{SampleUniform, UniformSampler};
use rand::distributions::{Distribution, Standard, Uniform};
use rand::{Fill, Rng, RngCore};
use refmodel::sets::{self, Tier};
use refmodel::{BigRef, Expect, Obs};
use vengine::{hex, par_chunks, unhex, Local, Run, Subj};

type Z = BigRef;

pub struct Script<'a> {
    pub bytes: &'a [u8],
    pub pos: usize,
}
impl<'a> Script<'a> {
    pub fn new(bytes: &'a [u8]) -> Self {
        Script { bytes, pos: 0 }
    }
    fn next(&mut self) -> u8 {
        let b = if self.pos < self.bytes.len() { self.bytes[self.pos] } else { 0 };
        self.pos += 1;
        b
    }
}
impl<'a> RngCore for Script<'a> {
    fn next_u32(&mut self) -> u32 {
        let mut b = [0u8; 4];
        self.fill_bytes(&mut b);
        u32::from_le_bytes(b)
    }
    fn next_u64(&mut self) -> u64 {
        let mut b = [0u8; 8];
        self.fill_bytes(&mut b);
        u64::from_le_bytes(b)
    }
    fn fill_bytes(&mut self, dest: &mut [u8]) {
        for d in dest.iter_mut() {
            *d = self.next();
        }
    }
    fn try_fill_bytes(&mut self, dest: &mut [u8]) -> Result<(), rand::Error> {
        self.fill_bytes(dest);
        Ok(())
    }
}

/// How one draw consumes the RNG stream, *learned from the implementation*: value byte j (little-endian
/// image) is a copy of stream byte `pos[j]`, and one draw consumes `len` bytes.  The property asks that every
/// digit is derived from the RNG output in little-endian order (pos strictly increasing), not that the stream
/// is consumed without gaps; for the current code pos = 0..BYTES and len = BYTES (`identity`).
#[derive(Clone, Debug)]
pub struct WordMap {
    pub pos: Vec<usize>,
    pub len: usize,
    pub identity: bool,
}
impl WordMap {
    /// the script that makes consecutive draws return the given images
    pub fn script(&self, images: &[&[u8]]) -> Vec<u8> {
        if self.identity {
            return images.concat();
        }
        let mut s: Vec<u8> = (0..self.len * images.len()).map(|i| 0xA5u8 ^ (i as u8).wrapping_mul(29)).collect();
        for (k, img) in images.iter().enumerate() {
            for (j, b) in img.iter().enumerate() {
                s[k * self.len + self.pos[j]] = *b;
            }
        }
        s
    }
    fn learn(nb: usize, draw: &dyn Fn(&mut Script) -> Vec<u8>) -> Result<WordMap, String> {
        let n = 16 * nb + 64;
        let a: Vec<u8> = (0..n).map(|i| (i % 251) as u8 + 1).collect();
        let b: Vec<u8> = (0..n).map(|i| (i / 251) as u8 + 1).collect();
        let (mut ra, mut rb) = (Script::new(&a), Script::new(&b));
        let r = std::panic::catch_unwind(std::panic::AssertUnwindSafe(|| (draw(&mut ra), draw(&mut rb))));
        let (ia, ib) = match r {
            Ok(x) => x,
            Err(_) => return Err("the draw panicked".into()),
        };
        if ra.pos != rb.pos {
            return Err(format!("the number of RNG bytes consumed by one draw depends on their content ({} / {})", ra.pos, rb.pos));
        }
        let len = ra.pos;
        let mut pos = Vec::with_capacity(nb);
        for j in 0..nb {
            if ia[j] == 0 || ib[j] == 0 {
                return Err(format!("byte {} of the value is not taken from the RNG output (always zero)", j));
            }
            let p = (ib[j] as usize - 1) * 251 + (ia[j] as usize - 1);
            if p >= len {
                return Err(format!("byte {} of the value is not a copy of a consumed RNG byte", j));
            }
            if let Some(&q) = pos.last() {
                if p <= q {
                    return Err(format!("byte {} of the value comes from stream position {} after byte {} from position {}: not little-endian order", j, p, j - 1, q));
                }
            }
            pos.push(p);
        }
        let identity = len == nb && pos.iter().enumerate().all(|(j, p)| j == *p);
        Ok(WordMap { pos, len, identity })
    }
}

/// the stream map of `rng.gen::<T>()` (Standard)
pub fn standard_map<T: Subj>() -> Result<WordMap, String>
where
    Standard: Distribution<T>,
{
    WordMap::learn(T::bytes(), &|rng: &mut Script| {
        let x: T = rng.gen();
        Subj::le(&x)
    })
}

/// the stream map of a one-element slice fill
pub fn fill_map<T: Subj>() -> Result<WordMap, String>
where
    bnum::random::Slice<T>: Fill,
{
    WordMap::learn(T::bytes(), &|rng: &mut Script| {
        let mut v = vec![T::from_le(&vec![0u8; T::bytes()]); 1];
        let _ = bnum::random::try_fill_slice(&mut v, rng);
        Subj::le(&v[0])
    })
}

pub const SAMPLERS: [&str; 6] = ["Uniform::new_inclusive.sample", "Uniform::new.sample", "gen_range(a..=b)", "gen_range(a..b)", "sample_single_inclusive", "sample_single"];

/// draw one value from [low, high] with sampler k (the exclusive forms get high + 1; None if high = MAX)
fn draw<T>(k: usize, low: T, high: T, high_plus_one: Option<T>, rng: &mut Script) -> Option<T>
where
    T: Subj + SampleUniform + PartialOrd,
{
    match k {
        0 => Some(Uniform::new_inclusive(low, high).sample(rng)),
        1 => high_plus_one.map(|h| Uniform::new(low, h).sample(rng)),
        2 => Some(rng.gen_range(low..=high)),
        3 => high_plus_one.map(|h| rng.gen_range(low..h)),
        4 => Some(<T::Sampler as UniformSampler>::sample_single_inclusive(low, high, rng)),
        _ => high_plus_one.map(|h| <T::Sampler as UniformSampler>::sample_single(low, h, rng)),
    }
}

fn plus_one<T: Subj>(x: &T) -> Option<T> {
    let z = x.z::<Z>().add(&BigRef::from_i128(1));
    if T::ti().fits(&z) {
        Some(T::from_z(&z))
    } else {
        None
    }
}

/// one transition: (low, high, script) -> membership
fn member_check<T>(config: &str, k: usize, low: T, high: T, script: &[u8], l: &mut Local) -> Option<(T, usize)>
where
    T: Subj + SampleUniform + PartialOrd,
{
    let hp = plus_one(&high);
    let mut rng = Script::new(script);
    let st = || vec![Subj::hex(&low), Subj::hex(&high), crate::strings::bhex(script)];
    l.enter(config, SAMPLERS[k], st, k as u64);
    let r = std::panic::catch_unwind(std::panic::AssertUnwindSafe(|| draw(k, low, high, hp, &mut rng)));
    match r {
        Err(_) => {
            l.check::<Z>(config, SAMPLERS[k], st, k as u64, &Expect::NoPanic, &Obs::Panic);
            None
        }
        Ok(None) => None,
        Ok(Some(v)) => {
            let (zl, zh, zv) = (low.z::<Z>(), high.z::<Z>(), v.z::<Z>());
            let inside = zl <= zv && zv <= zh;
            l.check::<Z>(config, SAMPLERS[k], st, k as u64, &Expect::Is(Obs::B(true)), &Obs::B(inside));
            Some((v, rng.pos))
        }
    }
}

/// exact preimage counts of one range under sampler k over ALL first words of the type (BITS <= 24)
fn uniformity<T>(config: &str, k: usize, low: T, high: T, _map: &WordMap, l: &mut Local)
where
    T: Subj + SampleUniform + PartialOrd,
{
    let nb = T::bytes();
    let bits = T::BITS;
    let (zl, zh) = (low.z::<Z>(), high.z::<Z>());
    let size = zh.sub(&zl).add(&BigRef::from_i128(1)).to_u128().unwrap() as usize;
    let mut counts = vec![0u32; size];
    let lowi = zl.to_i128().unwrap();
    let hp = plus_one(&high);
    if hp.is_none() && k % 2 == 1 {
        return;
    }
    let mut word = vec![0u8; nb];
    let mut accepted = 0u64;
    // "accepted first word" = a draw that consumes the least number of stream bytes seen for this range
    let mut wmin = usize::MAX;
    for w in 0..(1u64 << bits) {
        word.copy_from_slice(&w.to_le_bytes()[..nb]);
        let mut rng = Script::new(&word);
        let v = match draw(k, low, high, hp, &mut rng) {
            Some(v) => v,
            None => return,
        };
        if rng.pos < wmin {
            wmin = rng.pos;
            counts.iter_mut().for_each(|c| *c = 0);
            accepted = 0;
        }
        if rng.pos == wmin {
            accepted += 1;
            let vi = v.z::<i128>() - lowi;
            if vi < 0 || vi as usize >= size {
                l.check::<Z>(config, SAMPLERS[k], || vec![Subj::hex(&low), Subj::hex(&high), crate::strings::bhex(&word)], k as u64, &Expect::Is(Obs::B(true)), &Obs::B(false));
                return;
            }
            counts[vi as usize] += 1;
        }
    }
    if wmin > nb {
        // one attempt consumes more bytes than were enumerated: the word space was not covered
        return;
    }
    let first = counts[0];
    let uniform = first >= 1 && counts.iter().all(|c| *c == first);
    let st = || vec![Subj::hex(&low), Subj::hex(&high), "s:".to_string()];
    let e: Expect<Z> = Expect::Is(Obs::S("every value of the range has the same number (>= 1) of accepted first words".into()));
    let o: Obs<Z> = if uniform {
        Obs::S("every value of the range has the same number (>= 1) of accepted first words".into())
    } else {
        let (mn, mx) = (counts.iter().min().unwrap(), counts.iter().max().unwrap());
        Obs::S(format!("preimage counts range from {} to {} ({} accepted words)", mn, mx, accepted))
    };
    // aux 100 + k marks the uniformity transition of sampler k
    l.check(config, "uniform preimages", st, 100 + k as u64, &e, &o);
}

pub fn rand_check<T>(run: &mut Run)
where
    T: Subj + SampleUniform + PartialOrd,
    Standard: Distribution<T>,
    bnum::random::Slice<T>: Fill,
{
    let config = T::type_name();
    let nb = T::bytes();
    // the stream maps of one draw / one element fill, learned from the implementation; a map that cannot
    // be learned (a value byte that is not a copy of a stream byte, or bytes out of little-endian order)
    // is itself a violation of the statement
    let maps = (standard_map::<T>(), fill_map::<T>());
    let (map, fmap) = match maps {
        (Ok(a), Ok(b)) => (a, b),
        (a, b) => {
            if run.in_replay() && run.replay_target(&config, "stream map").is_none() {
                return;
            }
            if !run.in_replay() && !run.wants(&config) {
                return;
            }
            let mut l = Local::default();
            for (what, m) in [("Standard", a), ("Fill (one element)", b)] {
                if let Err(why) = m {
                    let e: Expect<Z> = Expect::Is(Obs::S("every byte of the value is a copy of a consumed RNG byte, in little-endian order".into()));
                    l.check(&config, "stream map", || vec![format!("s:{}", what)], 0, &e, &Obs::S(format!("{}: {}", what, why)));
                }
            }
            if run.in_replay() {
                match l.viols.first() {
                    Some(v) => println!("  expected: {}\n  observed: {}\nREPRODUCED", v.expected, v.observed),
                    None => println!("NOT-REPRODUCED"),
                }
            } else {
                run.merge(&config, "stream map of Standard / Fill learned from two coded scripts", "Standard / Fill", 2, l);
            }
            return;
        }
    };
    // ---- replay -------------------------------------------------------------------------------
    if run.in_replay() {
        for k in 0..6 {
            if let Some((st, aux)) = run.replay_target(&config, SAMPLERS[k]) {
                let _ = aux;
                let (low, high) = (T::from_le(&unhex(&st[0])), T::from_le(&unhex(&st[1])));
                let script = crate::strings::unbhex(&st[2]);
                let mut l = Local::default();
                member_check(&config, k, low, high, &script, &mut l);
                match l.viols.first() {
                    Some(v) => println!("  expected: {}\n  observed: {}\nREPRODUCED", v.expected, v.observed),
                    None => println!("NOT-REPRODUCED"),
                }
                return;
            }
        }
        if let Some((st, aux)) = run.replay_target(&config, "uniform preimages") {
            let (low, high) = (T::from_le(&unhex(&st[0])), T::from_le(&unhex(&st[1])));
            let mut l = Local::default();
            uniformity(&config, (aux - 100) as usize, low, high, &map, &mut l);
            match l.viols.first() {
                Some(v) => println!("  expected: {}\n  observed: {}\nREPRODUCED", v.expected, v.observed),
                None => println!("NOT-REPRODUCED"),
            }
            return;
        }
        for op in ["Standard", "try_fill_slice", "Fill"] {
            if let Some((st, _)) = run.replay_target(&config, op) {
                let script = crate::strings::unbhex(&st[0]);
                let mut l = Local::default();
                standard_and_fill::<T>(&config, &script, &map, &fmap, &mut l);
                match l.viols.iter().find(|v| v.op == op) {
                    Some(v) => println!("  expected: {}\n  observed: {}\nREPRODUCED", v.expected, v.observed),
                    None => println!("NOT-REPRODUCED"),
                }
                return;
            }
        }
        return;
    }
    if !run.wants(&config) {
        return;
    }
    if run.over_deadline() {
        run.cap_hit = true;
        return;
    }
    let tier = run.tier;
    let bits = T::BITS;
    let threads = run.threads;
    let cfg = config.clone();

    // ---- Standard / Fill ------------------------------------------------------------------------
    let mut scripts: Vec<Vec<u8>> = Vec::new();
    let distinct: Vec<u8> = (0..(4 * nb + 3)).map(|i| (i as u8).wrapping_mul(37).wrapping_add(1)).collect();
    scripts.push(distinct);
    let images = if bits <= 16 { sets::full(bits) } else { sets::structured(T::DIGIT_BITS, T::N, Tier::Quick) };
    for (i, img) in images.iter().enumerate() {
        // three consecutive images make a script for slices of up to three elements
        let mut s = img.clone();
        s.extend_from_slice(&images[(i * 7 + 1) % images.len()]);
        s.extend_from_slice(&images[(i * 13 + 5) % images.len()]);
        scripts.push(s);
    }
    let l = par_chunks(threads, scripts.len(), |lo, hi, l| {
        for s in &scripts[lo..hi] {
            standard_and_fill::<T>(&cfg, s, &map, &fmap, l);
        }
    });
    run.merge(&config, "scripts = byte images of values (x3) + a distinct-byte script", "Standard / Fill", scripts.len() as u64, l);

    // ---- ranges ---------------------------------------------------------------------------------
    if bits <= 64 {
        ranges_pass::<T, i128>(run, &config, tier, &map);
    } else {
        ranges_pass::<T, BigRef>(run, &config, tier, &map);
    }
}

/// every sampler on every (range, first word); where all first words of the type are enumerated
/// (BITS <= 24) the exact number of accepted words per value is counted as well
fn one_range<T, C: refmodel::ZNum>(cfg: &str, low: T, high: T, words: &[Vec<u8>], all_words: bool, explore_rejections: bool, only_k: Option<usize>, map: &WordMap, l: &mut Local)
where
    T: Subj + SampleUniform + PartialOrd,
{
    let hp = plus_one(&high);
    let (zl, zh) = (low.z::<C>(), high.z::<C>());
    let size: usize = if all_words { zh.zsub(&zl).to_i128_opt().unwrap() as usize + 1 } else { 0 };
    let mut counts: Vec<u32> = Vec::new();
    for k in 0..6 {
        if hp.is_none() && k % 2 == 1 {
            continue;
        }
        if only_k.is_some() && only_k != Some(k) {
            continue;
        }
        if all_words {
            counts.clear();
            counts.resize(size, 0);
        }
        // one breadcrumb per (range, sampler): per-word breadcrumbs would dominate the 10^9 draws
        if let Some(w0) = words.first() {
            l.enter(cfg, SAMPLERS[k], || vec![Subj::hex(&low), Subj::hex(&high), crate::strings::bhex(w0)], k as u64);
        }
        let mut broke = false;
        // "accepted first word" = a draw consuming the least number of stream bytes seen for this range and
        // sampler (one attempt); the words are raw scripts of BYTES bytes
        let mut wmin = usize::MAX;
        for w in words {
            let mut rng = Script::new(w);
            let r = std::panic::catch_unwind(std::panic::AssertUnwindSafe(|| draw(k, low, high, hp, &mut rng)));
            let st = || vec![Subj::hex(&low), Subj::hex(&high), crate::strings::bhex(w)];
            let v = match r {
                Err(_) => {
                    l.check::<Z>(cfg, SAMPLERS[k], st, k as u64, &Expect::NoPanic, &Obs::Panic);
                    broke = true;
                    continue;
                }
                Ok(None) => continue,
                Ok(Some(v)) => v,
            };
            let zv = v.z::<C>();
            let inside = zl <= zv && zv <= zh;
            l.transitions += 1;
            if !inside {
                l.transitions -= 1;
                l.check::<Z>(cfg, SAMPLERS[k], st, k as u64, &Expect::Is(Obs::B(true)), &Obs::B(false));
                broke = true;
                continue;
            }
            if all_words {
                if rng.pos < wmin {
                    wmin = rng.pos;
                    counts.iter_mut().for_each(|c| *c = 0);
                }
                if rng.pos == wmin {
                    counts[zv.zsub(&zl).to_i128_opt().unwrap() as usize] += 1;
                }
            }
            if rng.pos > map.len && explore_rejections {
                // one deviation from the default "first word accepted": every second word
                for w2 in 0..=255u8 {
                    member_check(cfg, k, low, high, &[w[0], w2], l);
                }
            }
        }
        if all_words && !broke && wmin <= T::bytes() {
            let first = counts[0];
            let uniform = first >= 1 && counts.iter().all(|c| *c == first);
            let text = "every value of the range has the same number (>= 1) of accepted first words";
            let e: Expect<Z> = Expect::Is(Obs::S(text.into()));
            let o: Obs<Z> = if uniform {
                Obs::S(text.into())
            } else {
                Obs::S(format!("accepted first words per value range from {} to {}", counts.iter().min().unwrap(), counts.iter().max().unwrap()))
            };
            l.check(cfg, "uniform preimages", || vec![Subj::hex(&low), Subj::hex(&high), "s:".to_string()], 100 + k as u64, &e, &o);
        }
    }
}

fn ranges_pass<T, C: refmodel::ZNum>(run: &mut Run, config: &str, tier: Tier, map: &WordMap)
where
    T: Subj + SampleUniform + PartialOrd,
{
    let bits = T::BITS;
    let nb = T::bytes();
    let threads = run.threads;
    let cfg = config.to_string();
    let mk = |v: Vec<Vec<u8>>| -> Vec<T> { v.iter().map(|b| T::from_le(b)).collect() };
    // (1) membership on boundary ranges x boundary first words (all words up to 16 bits)
    let vals: Vec<T> = if bits == 8 {
        mk(sets::full(8))
    } else {
        let mut v = sets::structured_small(T::DIGIT_BITS, T::N, tier);
        v.extend(sets::smalls(nb));
        mk(sets::dedup(v).into_iter().take(if bits <= 16 { if tier == Tier::Thorough { 28 } else { 14 } } else { 60 }).collect())
    };
    let mut ranges: Vec<(T, T)> = Vec::new();
    for a in &vals {
        for b in &vals {
            if a.z::<C>() <= b.z::<C>() {
                ranges.push((*a, *b));
            }
        }
    }
    let all_words = bits <= 16;
    let words: Vec<Vec<u8>> = if all_words { sets::full(bits) } else { sets::structured(T::DIGIT_BITS, T::N, Tier::Quick).into_iter().take(if tier == Tier::Thorough { 400 } else { 120 }).collect() };
    // second words after a rejected first word ("one deviation"): for the boundary ranges at 8 bits
    let small: std::collections::HashSet<Vec<u8>> = if bits == 8 { sets::structured_small(8, 1, Tier::Quick).into_iter().collect() } else { Default::default() };
    let l = par_chunks(threads, ranges.len(), |lo, hi, l| {
        for &(low, high) in &ranges[lo..hi] {
            let rej = bits == 8 && small.contains(&Subj::le(&low)) && small.contains(&Subj::le(&high));
            one_range::<T, C>(&cfg, low, high, &words, all_words, rej, None, map, l);
        }
    });
    let label = if all_words { "ranges x ALL first words: membership + exact preimage counts (+ all second words after a rejection at 8 bits)" } else { "boundary ranges x boundary first words: membership" };
    run.merge(config, label, "ranges", ranges.len() as u64 * words.len() as u64 * 6, l);

    // (2) 24-bit: a few ranges against all 2^24 first words
    if bits == 24 {
        let ti = T::ti();
        let (mn, mx) = (ti.min::<Z>(), ti.max::<Z>());
        let mut v: Vec<(Z, Z)> = Vec::new();
        let sizes: Vec<i128> = vec![3, 1 << 23, (1 << 23) + 1, 1i128 << 24, 1, 2, 255, 257, 1000, (1 << 24) - 1, 5, 7, 10, 65536, 65537];
        for s in sizes {
            let s1 = BigRef::from_i128(s - 1);
            let lo = if s % 2 == 1 { mn.clone() } else { BigRef::from_i128(-3).max(mn.clone()) };
            let hi = lo.add(&s1);
            if hi <= mx {
                v.push((lo, hi));
            } else if mn.add(&s1) <= mx {
                v.push((mn.clone(), mn.add(&s1)));
            }
        }
        v.dedup();
        let take = if tier == Tier::Thorough { 15 } else { 3 };
        let ur: Vec<(T, T)> = v.into_iter().take(take).map(|(a, b)| (T::from_z(&a), T::from_z(&b))).collect();
        let words = sets::full(24);
        let l = par_chunks(threads, ur.len() * 6, |lo, hi, l| {
            for i in lo..hi {
                let (low, high) = ur[i / 6];
                one_range::<T, C>(&cfg, low, high, &words, true, false, Some(i % 6), map, l);
            }
        });
        run.merge(config, "selected ranges x ALL 2^24 first words: membership + exact preimage counts", "ranges", ur.len() as u64 * 6 * (1u64 << 24), l);
    }
}

/// Standard sampling returns the image placed in the stream (through the learned stream map); a slice fill
/// of k elements equals k one-element fills in turn (element e reads the stream at e * len + pos[j])
fn standard_and_fill<T>(config: &str, images: &[u8], map: &WordMap, fmap: &WordMap, l: &mut Local)
where
    T: Subj,
    Standard: Distribution<T>,
    bnum::random::Slice<T>: Fill,
{
    let nb = T::bytes();
    let st = || vec![crate::strings::bhex(images)];
    let elem = |i: usize| -> Vec<u8> { (0..nb).map(|j| *images.get(i * nb + j).unwrap_or(&0)).collect() };
    let imgs: Vec<Vec<u8>> = (0..3).map(elem).collect();
    // Standard
    let script = map.script(&[&imgs[0]]);
    let mut rng = Script::new(&script);
    let o: Obs<Z> = vengine::guard(|| {
        let x: T = rng.gen();
        Obs::By(Subj::le(&x))
    });
    let e: Expect<Z> = Expect::Is(Obs::By(imgs[0].clone()));
    l.check(config, "Standard", st, 0, &e, &o);
    // slices of length 0..=3
    for len in 0..=3usize {
        let refs: Vec<&[u8]> = imgs[..len].iter().map(|v| &v[..]).collect();
        let script = fmap.script(&refs);
        let want: Vec<u8> = imgs[..len].concat();
        let zero = T::from_le(&vec![0u8; nb]);
        let mut v = vec![zero; len];
        let mut rng = Script::new(&script);
        let o: Obs<Z> = vengine::guard(|| {
            let ok = bnum::random::try_fill_slice(&mut v, &mut rng).is_ok();
            let got: Vec<u8> = v.iter().flat_map(|t| Subj::le(t)).collect();
            if ok { Obs::By(got) } else { Obs::S("Err".into()) }
        });
        let e: Expect<Z> = Expect::Is(Obs::By(want.clone()));
        l.check(config, "try_fill_slice", st, len as u64, &e, &o);
        // through the Fill trait on the wrapper
        let mut v2 = vec![zero; len];
        let mut rng = Script::new(&script);
        let o: Obs<Z> = vengine::guard(|| {
            let sl: &mut bnum::random::Slice<T> = unsafe { &mut *(v2.as_mut_slice() as *mut [T] as *mut bnum::random::Slice<T>) };
            let ok = Fill::try_fill(sl, &mut rng).is_ok();
            let got: Vec<u8> = v2.iter().flat_map(|t| Subj::le(t)).collect();
            if ok { Obs::By(got) } else { Obs::S("Err".into()) }
        });
        l.check(config, "Fill", st, len as u64, &Expect::Is(Obs::By(want)), &o);
    }
}

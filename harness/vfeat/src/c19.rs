//! C19: num_traits numeric conversions (FromPrimitive, ToPrimitive, AsPrimitive).
use bnum::cast::{As, CastFrom};
use num_traits::{AsPrimitive, FromPrimitive, ToPrimitive};
use refmodel::floatspec::{self, Decoded, FloatFmt, F32, F64};
use refmodel::{BigRef, Expect, Obs};
use vcore::casts::drive;
use vengine::{par_chunks, Local, Run, Subj};

type Z = BigRef;

fn opt_expect<T: Subj>(z: &Z) -> Expect<Z> {
    Expect::Is(Obs::OV(if T::ti().fits(z) { Some(z.clone()) } else { None }))
}

/// FromPrimitive::from_<int> for every primitive integer, ToPrimitive::to_<int>, AsPrimitive both ways
pub fn int_conversions<T>(run: &mut Run)
where
    T: Subj + FromPrimitive + ToPrimitive + As,
    T: CastFrom<u8> + CastFrom<u16> + CastFrom<u32> + CastFrom<u64> + CastFrom<u128> + CastFrom<usize>,
    T: CastFrom<i8> + CastFrom<i16> + CastFrom<i32> + CastFrom<i64> + CastFrom<i128> + CastFrom<isize>,
    T: AsPrimitive<u8> + AsPrimitive<u16> + AsPrimitive<u32> + AsPrimitive<u64> + AsPrimitive<u128> + AsPrimitive<usize>,
    T: AsPrimitive<i8> + AsPrimitive<i16> + AsPrimitive<i32> + AsPrimitive<i64> + AsPrimitive<i128> + AsPrimitive<isize>,
    u8: AsPrimitive<T> + CastFrom<T>, u16: AsPrimitive<T> + CastFrom<T>, u32: AsPrimitive<T> + CastFrom<T>, u64: AsPrimitive<T> + CastFrom<T>, u128: AsPrimitive<T> + CastFrom<T>, usize: AsPrimitive<T> + CastFrom<T>,
    i8: AsPrimitive<T> + CastFrom<T>, i16: AsPrimitive<T> + CastFrom<T>, i32: AsPrimitive<T> + CastFrom<T>, i64: AsPrimitive<T> + CastFrom<T>, i128: AsPrimitive<T> + CastFrom<T>, isize: AsPrimitive<T> + CastFrom<T>,
{
    macro_rules! one {
        ($($p:ty, $from:ident, $to:ident);*) => {$(
            drive::<$p, T>(run, concat!("FromPrimitive::", stringify!($from)), |s: $p| {
                let z = s.z::<Z>();
                (opt_expect::<T>(&z), Obs::OV(<T as FromPrimitive>::$from(s).map(|t| t.z::<Z>())))
            });
            drive::<T, $p>(run, concat!("ToPrimitive::", stringify!($to)), |s: T| {
                let z = s.z::<Z>();
                (opt_expect::<$p>(&z), Obs::OV(ToPrimitive::$to(&s).map(|t| t.z::<Z>())))
            });
            drive::<T, $p>(run, "AsPrimitive::as_ (bnum -> primitive)", |s: T| {
                let want: $p = <$p as CastFrom<T>>::cast_from(s);
                let got: $p = AsPrimitive::<$p>::as_(s);
                (Expect::Is(Obs::V(want.z::<Z>())), Obs::V(got.z::<Z>()))
            });
            drive::<$p, T>(run, "AsPrimitive::as_ (primitive -> bnum)", |s: $p| {
                let want: T = <T as CastFrom<$p>>::cast_from(s);
                let got: T = AsPrimitive::<T>::as_(s);
                (Expect::Is(Obs::V(want.z::<Z>())), Obs::V(got.z::<Z>()))
            });
        )*};
    }
    one!(u8, from_u8, to_u8; u16, from_u16, to_u16; u32, from_u32, to_u32; u64, from_u64, to_u64; u128, from_u128, to_u128; usize, from_usize, to_usize;
         i8, from_i8, to_i8; i16, from_i16, to_i16; i32, from_i32, to_i32; i64, from_i64, to_i64; i128, from_i128, to_i128; isize, from_isize, to_isize);
}

/// expectation of FromPrimitive::from_f32 / from_f64
fn from_float_expect<T: Subj>(bits: u64, f: FloatFmt) -> Expect<Z> {
    match floatspec::decode_trunc(bits, f) {
        Decoded::Nan | Decoded::Inf(_) => Expect::Is(Obs::OV(None)),
        Decoded::Finite(neg, mag) => {
            if neg && !T::SIGNED {
                // negative float into an unsigned target: the statement only fixes the out-of-range case
                if mag.is_zero() {
                    return Expect::Unspec;
                }
                return Expect::Is(Obs::OV(None));
            }
            let v = if neg { mag.neg() } else { mag };
            opt_expect::<T>(&v)
        }
    }
}

pub fn float_conversions<T>(run: &mut Run)
where
    T: Subj + FromPrimitive + ToPrimitive,
{
    let config = T::type_name();
    for (op, f) in [("FromPrimitive::from_f32", F32), ("FromPrimitive::from_f64", F64)] {
        let call = |b: u64| -> Obs<Z> {
            match std::panic::catch_unwind(std::panic::AssertUnwindSafe(|| Obs::OV(if f == F32 { T::from_f32(f32::from_bits(b as u32)) } else { T::from_f64(f64::from_bits(b)) }.map(|t| t.z::<Z>())))) {
                Ok(o) => o,
                Err(_) => Obs::Panic,
            }
        };
        if let Some((st, _)) = run.replay_target(&config, op) {
            let b = u64::from_str_radix(st[0].trim_start_matches("0x"), 16).unwrap();
            println!("replay {} {} bits {:#x}", config, op, b);
            run.replay_verdict(&from_float_expect::<T>(b, f), &call(b));
            return;
        }
        if run.in_replay() || !run.wants(&config) {
            continue;
        }
        // structured patterns plus the floats just below / at / above the range bounds
        let mut pats = floatspec::structured_patterns(f, f == F32);
        for k in [T::BITS as u64, T::BITS as u64 - 1] {
            for d in [-2i128, -1, 0, 1, 2] {
                for sign in [false, true] {
                    let z = BigRef::pow2(k).add(&BigRef::from_i128(d));
                    let z = if sign { z.neg() } else { z };
                    let bits = floatspec::int_to_float(&z, f);
                    for nb in [bits.wrapping_sub(1), bits, bits + 1] {
                        pats.push(nb);
                    }
                }
            }
        }
        let cfg = config.clone();
        let l = par_chunks(run.threads, pats.len(), |lo, hi, l| {
            for &b in &pats[lo..hi] {
                l.enter(&cfg, op, || vec![format!("{:#x}", b)], 0);
                l.check(&cfg, op, || vec![format!("{:#x}", b)], 0, &from_float_expect::<T>(b, f), &call(b));
            }
        });
        run.merge(&config, "float patterns", op, pats.len() as u64, l);
    }
    // to_f32 / to_f64: always Some(nearest float)
    for (op, f) in [("ToPrimitive::to_f32", F32), ("ToPrimitive::to_f64", F64)] {
        let one = |x: &T| -> (Expect<Z>, Obs<Z>) {
            let e: Expect<Z> = Expect::Is(Obs::ON(Some(floatspec::int_to_float(&x.z::<Z>(), f))));
            let xx = *x;
            let o = match std::panic::catch_unwind(std::panic::AssertUnwindSafe(move || Obs::ON(if f == F32 { xx.to_f32().map(|v| v.to_bits() as u64) } else { xx.to_f64().map(|v| v.to_bits()) }))) {
                Ok(o) => o,
                Err(_) => Obs::Panic,
            };
            (e, o)
        };
        if let Some((st, _)) = run.replay_target(&config, op) {
            let x = T::from_le(&vengine::unhex(&st[0]));
            let (e, o) = one(&x);
            run.replay_verdict(&e, &o);
            return;
        }
        if run.in_replay() || !run.wants(&config) {
            continue;
        }
        let mut vals = if T::BITS <= 16 { refmodel::sets::full(T::BITS) } else { refmodel::sets::structured(T::DIGIT_BITS, T::N, run.tier) };
        vals.extend(vcore::floats::rounding_values(T::BITS, T::SIGNED, run.tier));
        let xs: Vec<T> = refmodel::sets::dedup(vals).iter().map(|b| T::from_le(b)).collect();
        let cfg = config.clone();
        let l = par_chunks(run.threads, xs.len(), |lo, hi, l| {
            for x in &xs[lo..hi] {
                l.enter(&cfg, op, || vec![vengine::hex(&x.le())], 0);
                let (e, o) = one(x);
                l.check(&cfg, op, || vec![vengine::hex(&x.le())], 0, &e, &o);
            }
        });
        run.merge(&config, "values + rounding patterns", op, xs.len() as u64, l);
    }
}

/// AsPrimitive for the remaining source / target kinds: bool, char, f32, f64 into bnum, bnum into
/// f32 / f64, and bnum into bnum (different digit types and widths) — each against the As cast.
pub fn as_primitive_extras<T, W1, W2>(run: &mut Run)
where
    T: Subj + As + CastFrom<bool> + CastFrom<char> + CastFrom<f32> + CastFrom<f64>,
    bool: AsPrimitive<T>,
    char: AsPrimitive<T>,
    f32: AsPrimitive<T> + CastFrom<T>,
    f64: AsPrimitive<T> + CastFrom<T>,
    T: AsPrimitive<f32> + AsPrimitive<f64> + AsPrimitive<W1> + AsPrimitive<W2>,
    W1: Subj + CastFrom<T>,
    W2: Subj + CastFrom<T>,
{
    let config = format!("AsPrimitive extras {}", T::type_name());
    let op = "AsPrimitive::as_ (extras)";
    if run.in_replay() {
        // these transitions are deterministic functions of tiny domains; a recorded violation is
        // replayed by re-running the whole (sub-second) family
        if run.replay_target(&config, op).is_none() {
            return;
        }
    } else if !run.wants_prefix(&config) {
        return;
    }
    let mut l = Local::default();
    let mut chk = |what: String, want: Obs<Z>, got: Obs<Z>| {
        l.check(&config, op, || vec![what.clone()], 0, &Expect::Is(want), &got);
    };
    for b in [false, true] {
        chk(format!("bool {}", b), vengine::guard(|| Obs::V(T::cast_from(b).z::<Z>())), vengine::guard(|| Obs::V(AsPrimitive::<T>::as_(b).z::<Z>())));
    }
    for c in vcore::casts::chars(refmodel::Tier::Quick) {
        chk(format!("char {}", c as u32), vengine::guard(|| Obs::V(T::cast_from(c).z::<Z>())), vengine::guard(|| Obs::V(AsPrimitive::<T>::as_(c).z::<Z>())));
    }
    for b in floatspec::structured_patterns(F32, false).into_iter().step_by(3) {
        let f = f32::from_bits(b as u32);
        chk(format!("f32 {:#x}", b), vengine::guard(|| Obs::V(T::cast_from(f).z::<Z>())), vengine::guard(|| Obs::V(AsPrimitive::<T>::as_(f).z::<Z>())));
    }
    for b in floatspec::structured_patterns(F64, false).into_iter().step_by(11) {
        let f = f64::from_bits(b);
        chk(format!("f64 {:#x}", b), vengine::guard(|| Obs::V(T::cast_from(f).z::<Z>())), vengine::guard(|| Obs::V(AsPrimitive::<T>::as_(f).z::<Z>())));
    }
    let vals = if T::BITS <= 16 { refmodel::sets::full(T::BITS) } else { refmodel::sets::structured(T::DIGIT_BITS, T::N, refmodel::Tier::Quick) };
    for bytes in vals.iter() {
        let x = T::from_le(bytes);
        let h = vengine::hex(bytes);
        chk(format!("{} -> f32", h), vengine::guard(|| Obs::F(<f32 as CastFrom<T>>::cast_from(x).to_bits() as u64)), vengine::guard(|| Obs::F(AsPrimitive::<f32>::as_(x).to_bits() as u64)));
        chk(format!("{} -> f64", h), vengine::guard(|| Obs::F(<f64 as CastFrom<T>>::cast_from(x).to_bits())), vengine::guard(|| Obs::F(AsPrimitive::<f64>::as_(x).to_bits())));
        chk(format!("{} -> {}", h, W1::type_name()), vengine::guard(|| Obs::V(<W1 as CastFrom<T>>::cast_from(x).z::<Z>())), vengine::guard(|| Obs::V(AsPrimitive::<W1>::as_(x).z::<Z>())));
        chk(format!("{} -> {}", h, W2::type_name()), vengine::guard(|| Obs::V(<W2 as CastFrom<T>>::cast_from(x).z::<Z>())), vengine::guard(|| Obs::V(AsPrimitive::<W2>::as_(x).z::<Z>())));
    }
    if run.in_replay() {
        match l.viols.first() {
            Some(v) => println!("  expected: {}\n  observed: {}\nREPRODUCED", v.expected, v.observed),
            None => println!("NOT-REPRODUCED"),
        }
        return;
    }
    let n = l.transitions;
    run.merge(&config, "bool, char, float patterns, values", op, n, l);
}

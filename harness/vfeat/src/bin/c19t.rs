use vfeat::*;

macro_rules! cfg {
    ($run:expr, $fam:ident, $n:literal, $z:ty) => {{
        c19::int_conversions::<$fam::U<$n>>($run);
        c19::int_conversions::<$fam::I<$n>>($run);
        c19::float_conversions::<$fam::U<$n>>($run);
        c19::float_conversions::<$fam::I<$n>>($run);
    }};
}

fn main() {
    let mut run = Run::from_args("C19", "c19t");
    vcore::core_configs!(cfg, &mut run);
    if run.tier == Tier::Quick {
        cfg!(&mut run, d8, 17, BigRef);
        cfg!(&mut run, d64, 17, BigRef);
    } else {
        cfg!(&mut run, d64, 17, BigRef);
    }
    std::process::exit(run.finish());
}

use vfeat::*;

macro_rules! cfg {
    ($run:expr, $fam:ident, $n:literal, $z:ty) => {{
        c19::int_conversions::<$fam::U<$n>>($run);
        c19::int_conversions::<$fam::I<$n>>($run);
        c19::float_conversions::<$fam::U<$n>>($run);
        c19::float_conversions::<$fam::I<$n>>($run);
        c19::as_primitive_extras::<$fam::U<$n>, $fam::I<3>, $fam::U<2>>($run);
        c19::as_primitive_extras::<$fam::I<$n>, $fam::U<5>, $fam::I<1>>($run);
    }};
}

fn main() {
    vengine::on_worker_stack(real_main);
}

fn real_main() {
    let mut run = Run::from_args("C19", "c19t");
    vcore::core_configs!(cfg, &mut run);
    if run.tier == Tier::Quick {
        cfg!(&mut run, d64, 17, BigRef);
    } else {
        cfg!(&mut run, d64, 17, BigRef);
    }
    std::process::exit(run.finish());
}

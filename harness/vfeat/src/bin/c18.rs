use vfeat::c18 as t;
use vfeat::*;

/// C18 plan: pairs as in the arithmetic checks (reduced at 16 bits), root degrees, radices
fn plan<T: Subj>(tier: Tier) -> Plan<T> {
    let bits = T::BITS;
    let mut p = if bits == 16 && tier == Tier::Quick {
        // FULL(16) unary + reduced pairs
        let a = sets::full(16);
        let b = sets::structured_small(T::DIGIT_BITS, T::N, tier);
        Plan::new("FULL x GRID(small)", &a, &b, &b[..6].to_vec())
            .with_aux(Aux::Shift, sets::shift_amounts(bits, T::DIGIT_BITS, tier))
            .with_aux(Aux::Exp, sets::exponents(bits, tier))
    } else {
        plans::arith::<T>(tier)
    };
    if bits == 8 {
        // FULL^3 is not needed for MulAdd: bound the third register
        p.c = p.c.iter().step_by(37).cloned().collect();
    }
    let mut degrees: Vec<u64> = (1..=17).collect();
    degrees.extend([31, 32, 33, 40, 63, 64, 65, bits as u64 / 2, bits as u64 - 1, bits as u64, bits as u64 + 1, 1000, (1u64 << 32) - 1]);
    degrees.sort();
    degrees.dedup();
    let idx: Vec<u64> = if bits <= 64 { (0..bits as u64).collect() } else { plans::bit_indices(bits, T::DIGIT_BITS, Tier::Quick) };
    p.with_aux(Aux::K(21), degrees).with_aux(Aux::K(22), vec![2, 3, 8, 10, 16, 36]).with_aux(Aux::BitIdx, idx)
}

fn fwd_plan<T: Subj>(tier: Tier) -> Plan<T> {
    let mut p = plans::panic_plan::<T>(tier).with_aux(Aux::K(22), vec![2, 3, 8, 10, 16, 36]);
    if T::BITS == 8 {
        // pairs from the boundary subset, all values in the first register
        p.b = p.b.iter().step_by(5).cloned().collect();
    }
    p.c = p.a.iter().step_by((p.a.len() / 6).max(1)).cloned().collect();
    p
}

macro_rules! cfg {
    ($run:expr, $fam:ident, $n:literal, $z:ty) => {{
        let tier = $run.tier;
        $run.explore(&t::$fam::u::<$n, $z>(), &plan::<$fam::U<$n>>(tier));
        $run.explore(&t::$fam::i::<$n, $z>(), &plan::<$fam::I<$n>>(tier));
        // forwarders: differential against the inherent methods on the (panic-heavy) reduced plan
        $run.explore(&t::$fam::u_fwd::<$n, $z>(), &fwd_plan::<$fam::U<$n>>(tier));
        $run.explore(&t::$fam::i_fwd::<$n, $z>(), &fwd_plan::<$fam::I<$n>>(tier));
    }};
}

fn main() {
    let mut run = Run::from_args("C18", "c18");
    vcore::core_configs!(cfg, &mut run);
    std::process::exit(run.finish());
}

use vfeat::c18 as t;
use vfeat::*;

/// C18 plan: pairs as in the arithmetic checks (reduced at 16 bits), root degrees, radices
fn plan<T: Subj>(tier: Tier) -> Plan<T> {
    let bits = T::BITS;
    let mut p = if bits == 16 && tier == Tier::Quick {
        // FULL(16) unary + reduced pairs
        let a = sets::full(16);
        let b = sets::structured_small(T::DIGIT_BITS, T::N, tier);
        Plan::new("FULL x GRID(small)", &a, &b, &b[..6].to_vec())
            .with_aux(Aux::Shift, sets::shift_amounts(bits, T::DIGIT_BITS, tier))
            .with_aux(Aux::Exp, sets::exponents(bits, tier))
    } else {
        plans::arith::<T>(tier)
    };
    if bits == 8 {
        // FULL^3 is not needed for MulAdd: bound the third register
        p.c = p.c.iter().step_by(37).cloned().collect();
    }
    let mut degrees: Vec<u64> = (1..=17).collect();
    degrees.extend([31, 32, 33, 40, 63, 64, 65, 80, 81, 100, bits as u64 / 4, bits as u64 / 3, bits as u64 / 2, bits as u64 - 1, bits as u64, bits as u64 + 1, 1000, (1u64 << 32) - 1]);
    degrees.sort();
    degrees.dedup();
    let idx: Vec<u64> = if bits <= 64 { (0..bits as u64).collect() } else { plans::bit_indices(bits, T::DIGIT_BITS, Tier::Quick) };
    p.with_aux(Aux::K(21), degrees).with_aux(Aux::K(22), vec![2, 3, 8, 10, 16, 36]).with_aux(Aux::BitIdx, idx)
}

fn fwd_plan<T: Subj>(tier: Tier) -> Plan<T> {
    let mut p = plans::panic_plan::<T>(tier).with_aux(Aux::K(22), vec![2, 3, 8, 10, 16, 36]);
    if T::BITS == 8 {
        // pairs from the boundary subset, all values in the first register
        p.b = p.b.iter().step_by(5).cloned().collect();
    }
    p.c = p.a.iter().step_by((p.a.len() / 6).max(1)).cloned().collect();
    p
}

/// Roots above 128 bits (the Newton fix-point path).  One plan of range boundaries x landmark degrees,
/// and for every degree n (all of 1..=130, then landmarks up to 2^32 - 1) a plan with
/// x in {r^n - 1, r^n, r^n + 1} for small r, r next to powers of two, and the exact n-th roots of the
/// range, explored with degrees n - 1, n, n + 1.  Signed: the negations too.
fn roots_plans<T: Subj>(tier: Tier) -> Vec<Plan<T>> {
    let bits = T::BITS as u64;
    let nb = T::bytes();
    let ti = T::ti();
    let max = ti.max::<BigRef>();
    let big = |v: i128| BigRef::from_i128(v);
    let to_plan = |label: &str, vals: Vec<BigRef>, degrees: Vec<u64>| -> Plan<T> {
        let mut bytes: Vec<Vec<u8>> = Vec::new();
        for v in &vals {
            bytes.push(v.to_le_bytes_wrapped(nb));
            if T::SIGNED {
                bytes.push(v.neg().to_le_bytes_wrapped(nb));
            }
        }
        Plan::new(label, &sets::dedup(bytes), &[], &[]).with_aux(Aux::K(21), degrees)
    };
    let mut all_degrees: Vec<u64> = (1..=130).collect();
    all_degrees.extend([255, 256, 257, 258, 300, bits / 4, bits / 3, bits / 2, bits - 1, bits, bits + 1, 1000, 65535, 65536, 65537, (1u64 << 32) - 1]);
    all_degrees.sort();
    all_degrees.dedup();
    let mut plans = Vec::new();
    // range boundaries against the landmark degrees
    let common = vec![max.clone(), max.sub(&big(1)), BigRef::pow2(bits - 1).sub(&big(1)), BigRef::pow2(bits - 2).add(&big(1)), BigRef::pow2(128), BigRef::pow2(128).add(&big(1)), BigRef::pow2(128).sub(&big(1)), big(0), big(1), big(2)];
    let landmarks: Vec<u64> = all_degrees.iter().cloned().filter(|n| *n <= 17 || [31, 32, 33, 40, 63, 64, 65, 80, 81, 100, 127, 128, 129].contains(n) || *n >= 255).collect();
    plans.push(to_plan("ROOTS: range boundaries x landmark degrees", common, landmarks));
    let mut small_r: Vec<BigRef> = [2i128, 3, 5, 7, 10, 255, 256, 257, 65535, 65536, 65537].iter().map(|x| big(*x)).collect();
    if tier == Tier::Thorough {
        for k in [1u64, 7, 9, 31, 32, 33, 63, 64, 65] {
            small_r.push(BigRef::pow2(k).add(&big(1)));
            small_r.push(BigRef::pow2(k).sub(&big(1)));
        }
    }
    for &n in &all_degrees {
        if n > bits {
            continue;
        }
        let mut rs = small_r.clone();
        let top = max.nth_root_floor(n);
        for d in -1..=1i128 {
            rs.push(top.add(&big(d)));
        }
        let mut vals: Vec<BigRef> = Vec::new();
        for r in rs {
            if r < big(2) || r.bit_len() * n > bits + n {
                continue;
            }
            let p = r.pow(n);
            for d in -1..=1i128 {
                let x = p.add(&big(d));
                if !x.is_neg() && x <= max {
                    vals.push(x);
                }
            }
        }
        if vals.is_empty() {
            continue;
        }
        let degs: Vec<u64> = [n.saturating_sub(1), n, n + 1].iter().cloned().filter(|d| *d >= 1 && *d <= u32::MAX as u64).collect();
        plans.push(to_plan(&format!("ROOTS degree {}: r^n - 1, r^n, r^n + 1", n), vals, degs));
    }
    plans
}

macro_rules! roots {
    ($run:expr, $fam:ident, $n:literal) => {{
        let tier = $run.tier;
        for p in roots_plans::<$fam::U<$n>>(tier) {
            $run.explore(&t::$fam::u_roots::<$n, BigRef>(), &p);
        }
        for p in roots_plans::<$fam::I<$n>>(tier) {
            $run.explore(&t::$fam::i_roots::<$n, BigRef>(), &p);
        }
    }};
}

macro_rules! cfg {
    ($run:expr, $fam:ident, $n:literal, $z:ty) => {{
        let tier = $run.tier;
        $run.explore(&t::$fam::u::<$n, $z>(), &plan::<$fam::U<$n>>(tier));
        $run.explore(&t::$fam::i::<$n, $z>(), &plan::<$fam::I<$n>>(tier));
        // forwarders: differential against the inherent methods on the (panic-heavy) reduced plan
        $run.explore(&t::$fam::u_fwd::<$n, $z>(), &fwd_plan::<$fam::U<$n>>(tier));
        $run.explore(&t::$fam::i_fwd::<$n, $z>(), &fwd_plan::<$fam::I<$n>>(tier));
    }};
}

fn main() {
    vengine::on_worker_stack(real_main);
}

fn real_main() {
    let mut run = Run::from_args("C18", "c18");
    if run.tier == Tier::Thorough {
        vcore::core_configs!(cfg, &mut run);
    } else {
        // quick: a reduced list (the forwarders and the Integer / Signed contracts are generic over the
        // digit type; every digit type appears with one and with several digits)
        cfg!(&mut run, d8, 1, i128);
        cfg!(&mut run, d8, 2, i128);
        cfg!(&mut run, d8, 3, i128);
        cfg!(&mut run, d16, 1, i128);
        cfg!(&mut run, d16, 3, BigRef);
        cfg!(&mut run, d32, 2, BigRef);
        cfg!(&mut run, d32, 3, BigRef);
        cfg!(&mut run, d64, 1, BigRef);
        cfg!(&mut run, d64, 2, BigRef);
        cfg!(&mut run, d64, 3, BigRef);
        cfg!(&mut run, d8, 17, BigRef);
    }
    // the Newton path of the roots needs more than 128 bits; u8 digits wider than 257 bits make the
    // degree itself exceed one digit
    roots!(&mut run, d8, 17);
    roots!(&mut run, d8, 40);
    roots!(&mut run, d16, 12);
    roots!(&mut run, d64, 3);
    roots!(&mut run, d64, 4);
    if run.tier == Tier::Thorough {
        roots!(&mut run, d8, 24);
        roots!(&mut run, d8, 128);
        roots!(&mut run, d32, 10);
        roots!(&mut run, d64, 8);
        roots!(&mut run, d64, 16);
    }
    std::process::exit(run.finish());
}

use vfeat::*;

macro_rules! cfg {
    ($run:expr, $fam:ident, $n:literal, $z:ty) => {{
        c20::rand_check::<$fam::U<$n>>($run);
        c20::rand_check::<$fam::I<$n>>($run);
    }};
}

fn main() {
    vengine::on_worker_stack(real_main);
}

fn real_main() {
    let mut run = Run::from_args("C20", "c20t");
    vcore::core_configs!(cfg, &mut run);
    std::process::exit(run.finish());
}

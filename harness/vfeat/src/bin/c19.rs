use vfeat::*;

macro_rules! cfg {
    ($run:expr, $fam:ident, $n:literal, $z:ty) => {{
        c19::int_conversions::<$fam::U<$n>>($run);
        c19::int_conversions::<$fam::I<$n>>($run);
        c19::float_conversions::<$fam::U<$n>>($run);
        c19::float_conversions::<$fam::I<$n>>($run);
        c19::as_primitive_extras::<$fam::U<$n>, $fam::I<3>, $fam::U<2>>($run);
        c19::as_primitive_extras::<$fam::I<$n>, $fam::U<5>, $fam::I<1>>($run);
    }};
}

fn main() {
    vengine::on_worker_stack(real_main);
}

fn real_main() {
    let mut run = Run::from_args("C19", "c19");
    // quick binary: the narrow targets the property stresses plus one type per digit width
    cfg!(&mut run, d8, 1, i128);
    cfg!(&mut run, d8, 3, i128);
    cfg!(&mut run, d16, 1, i128);
    cfg!(&mut run, d32, 3, BigRef);
    cfg!(&mut run, d64, 1, BigRef);
    cfg!(&mut run, d64, 2, BigRef);
    cfg!(&mut run, d8, 17, BigRef);
    // widths strictly between 64 and 128 bits with 16-bit digits, three 64-bit digits
    cfg!(&mut run, d16, 7, BigRef);
    cfg!(&mut run, d64, 3, BigRef);
    std::process::exit(run.finish());
}

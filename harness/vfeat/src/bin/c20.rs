use vfeat::*;

macro_rules! cfg {
    ($run:expr, $fam:ident, $n:literal, $z:ty) => {{
        c20::rand_check::<$fam::U<$n>>($run);
        c20::rand_check::<$fam::I<$n>>($run);
    }};
}

fn main() {
    vengine::on_worker_stack(real_main);
}

fn real_main() {
    let mut run = Run::from_args("C20", "c20");
    // quick binary: every digit type with N = 1 and a multi-digit width; 8-, 16- and 24-bit types are the
    // ones whose RNG word space is enumerated completely
    cfg!(&mut run, d8, 1, i128);
    cfg!(&mut run, d8, 2, i128);
    cfg!(&mut run, d8, 3, i128);
    cfg!(&mut run, d16, 1, i128);
    cfg!(&mut run, d16, 3, BigRef);
    cfg!(&mut run, d32, 1, i128);
    cfg!(&mut run, d32, 3, BigRef);
    cfg!(&mut run, d64, 1, BigRef);
    cfg!(&mut run, d64, 2, BigRef);
    cfg!(&mut run, d64, 3, BigRef);
    // digit counts that leave 5, 7 and 3 digits after whole 64-bit words (u8 / u16 digits), 10 x u32
    cfg!(&mut run, d8, 7, BigRef);
    cfg!(&mut run, d8, 13, BigRef);
    cfg!(&mut run, d16, 11, BigRef);
    cfg!(&mut run, d32, 10, BigRef);
    std::process::exit(run.finish());
}

//! The explorer bound to the real bnum types.
#[path = "../../refmodel/src/engine.rs"]
pub mod engine;
pub use engine::*;

macro_rules! impl_subj {
    ($fam:ident, $BUint:ident, $BInt:ident, $Digit:ty, $db:expr) => {
        pub mod $fam {
            pub type U<const N: usize> = bnum::$BUint<N>;
            pub type I<const N: usize> = bnum::$BInt<N>;
            pub type Digit = $Digit;
            pub const DIGIT_BITS: u32 = $db;
        }
        impl<const N: usize> crate::Subj for bnum::$BUint<N> {
            const BITS: u32 = $db * N as u32;
            const SIGNED: bool = false;
            const DIGIT_BITS: u32 = $db;
            const N: usize = N;
            fn type_name() -> String {
                format!("{}<{}>", stringify!($BUint), N)
            }
            fn from_le(b: &[u8]) -> Self {
                assert_eq!(b.len(), N * ($db / 8));
                let mut d = [0 as $Digit; N];
                for i in 0..N {
                    let mut x: $Digit = 0;
                    for j in 0..($db / 8) {
                        x |= (b[i * ($db / 8) + j] as $Digit) << (8 * j);
                    }
                    d[i] = x;
                }
                Self::from_digits(d)
            }
            #[inline]
            fn digit(&self, i: usize) -> u64 {
                self.digits()[i] as u64
            }
        }
        impl<const N: usize> crate::Subj for bnum::$BInt<N> {
            const BITS: u32 = $db * N as u32;
            const SIGNED: bool = true;
            const DIGIT_BITS: u32 = $db;
            const N: usize = N;
            fn type_name() -> String {
                format!("{}<{}>", stringify!($BInt), N)
            }
            fn from_le(b: &[u8]) -> Self {
                Self::from_bits(<bnum::$BUint<N> as crate::Subj>::from_le(b))
            }
            #[inline]
            fn digit(&self, i: usize) -> u64 {
                self.to_bits().digits()[i] as u64
            }
        }
    };
}
impl_subj!(d8, BUintD8, BIntD8, u8, 8);
impl_subj!(d16, BUintD16, BIntD16, u16, 16);
impl_subj!(d32, BUintD32, BIntD32, u32, 32);
impl_subj!(d64, BUint, BInt, u64, 64);


// primitive integers as subjects (sources / targets of casts and conversions)
macro_rules! prim_subj {
    ($($t:ty, $u:ty, $bits:expr, $signed:expr, $n:expr, $db:expr);*) => {$(
        impl crate::Subj for $t {
            const BITS: u32 = $bits;
            const SIGNED: bool = $signed;
            const DIGIT_BITS: u32 = $db;
            const N: usize = $n;
            fn type_name() -> String {
                stringify!($t).to_string()
            }
            fn from_le(b: &[u8]) -> Self {
                let mut a = [0u8; $bits / 8];
                a.copy_from_slice(b);
                <$t>::from_le_bytes(a)
            }
            fn digit(&self, i: usize) -> u64 {
                ((*self as $u) >> ((i as u32 * $db) % $bits)) as u64
            }
        }
    )*};
}
prim_subj!(u8, u8, 8, false, 1, 8; i8, u8, 8, true, 1, 8; u16, u16, 16, false, 1, 16; i16, u16, 16, true, 1, 16;
    u32, u32, 32, false, 1, 32; i32, u32, 32, true, 1, 32; u64, u64, 64, false, 1, 64; i64, u64, 64, true, 1, 64;
    u128, u128, 128, false, 2, 64; i128, u128, 128, true, 2, 64; usize, u64, 64, false, 1, 64; isize, u64, 64, true, 1, 64);

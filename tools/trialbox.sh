#!/bin/bash
# Regression of the seeded changes WITHOUT touching /repo: a scratch git worktree of /repo plus a scratch
# copy of /verif whose harness depends on that worktree.  (The per-change trials recorded by
# `tools/seed.py trial` are run against /repo itself; this tool re-runs many of them unattended, e.g. after
# the quick tier was changed, while /repo stays clean for `vp check`.)
#   tools/trialbox.sh sync                 create / refresh the box from /verif's working tree and /repo's HEAD
#   tools/trialbox.sh run <name>...        apply seeded/<name>/patch.diff in the box, run the quick check of the
#                                          property (or of $TRIAL_IDS), undo; append to $BOX/results.txt
#   tools/trialbox.sh rm                   remove the box (worktree and build output)
BOX=${TRIALBOX:-/tmp/trialbox}
set -u
case "$1" in
sync)
  mkdir -p "$BOX"
  if [ ! -d "$BOX/repo" ]; then git -C /repo worktree add --detach "$BOX/repo" HEAD >/dev/null || exit 2; else git -C "$BOX/repo" checkout -q --detach "$(git -C /repo rev-parse HEAD)" && git -C "$BOX/repo" checkout -- . ; fi
  rsync -a --delete --exclude target --exclude 'target-*' --exclude build --exclude replays --exclude .git --exclude __pycache__ /verif/ "$BOX/verif/"
  sed -i "s#path = \"/repo\"#path = \"$BOX/repo\"#" "$BOX"/verif/harness/*/Cargo.toml
  ;;
run)
  shift
  for name in "$@"; do
    d=/verif/seeded/$name
    pid=$(python3 -c "import json;print(json.load(open('$d/meta.json'))['property'])")
    ids=${TRIAL_IDS:-$pid}
    git -C "$BOX/repo" checkout -- . && git -C "$BOX/repo" apply "$d/patch.diff" || { echo "$name APPLY-FAILED" | tee -a "$BOX/results.txt"; continue; }
    for id in $ids; do
      s=$(date +%s)
      out=$(cd "$BOX/verif" && VERIF_REPO="$BOX/repo" ./run $id quick 2>&1); rc=$?
      nv=$(echo "$out" | grep -c '^VIOLATION')
      echo "$name $id exit=$rc violations=$nv $(( $(date +%s)-s ))s $(echo "$out" | grep -A1 '^VIOLATION' | head -2 | tr '\n' ' ' | cut -c1-220)" | tee -a "$BOX/results.txt"
      [ $rc -eq 2 ] && echo "$out" | tail -5
    done
    git -C "$BOX/repo" checkout -- .
  done
  ;;
rm)
  git -C /repo worktree remove --force "$BOX/repo"; rm -rf "$BOX"
  ;;
esac

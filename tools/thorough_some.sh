#!/bin/bash
# thorough tier of the checks named on the command line, in that order (used with `vp run`; results are not evidence)
for id in "$@"; do
  /usr/bin/time -f "$id thorough wall %es maxrss %MkB" ./run $id thorough 2>&1 | grep -E "thorough|VIOLATION|MACHINERY|KNOWN" | cut -c1-250
done

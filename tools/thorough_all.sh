#!/bin/bash
# run the thorough tier of every check in sequence (used with `vp run`; results are not evidence)
for id in C02 C04 C05 C06 C07 C08 C09 C10 C11 C12 C13 C14 C15 C16 C17 C18 C19 C20 C03 C01; do
  /usr/bin/time -f "$id thorough wall %es maxrss %MkB" ./run $id thorough 2>&1 | grep -E "thorough|VIOLATION|MACHINERY|KNOWN" | cut -c1-250
done

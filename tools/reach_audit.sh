#!/bin/bash
# Reach audit: which lines of /repo/src are never executed by the quick tier of the checks?
# Builds the check binaries with LLVM source-based coverage (nightly toolchain: it ships llvm-cov /
# llvm-profdata), runs every quick binary in both profiles, and writes
#   $OUT/uncovered.txt   one line per source line of /repo/src with an execution count of 0
#   $OUT/summary.txt     per-file region / line coverage
# This is a blind-spot finder for the *harness* (it is not a check and decides nothing).
# The engines' wall-clock cap is lifted (--deadline): instrumented binaries are several times slower.
# Scratch build output goes to $T (outside /repo and /verif) and is removed at the end.
set -u
OUT=${1:-/verif/build/reach}
T=${REACH_TARGET:-/tmp/verif-reach-target}
BINS=${REACH_BINS:-"c01 c02 c03 c04 c05 c06 c07 c08 c09 c10 c11 c12 c13 c14 c15 c16 c17 c18 c19 c20"}
TIER=${REACH_TIER:-quick}
LLVM=/root/.rustup/toolchains/nightly-x86_64-unknown-linux-gnu/lib/rustlib/x86_64-unknown-linux-gnu/bin
mkdir -p "$OUT" "$T/prof"
cd /verif/harness
export CARGO_NET_OFFLINE=true RUSTFLAGS="-C instrument-coverage" CARGO_TARGET_DIR="$T"
objs=()
for prof in ${REACH_PROFILES:-release relda}; do
  for b in $BINS; do
    case $b in c18|c19|c20) pkg=vfeat;; *) pkg=vcore;; esac
    cargo +nightly build --offline --profile $prof -p $pkg --bin $b 2>&1 | tail -1
    exe="$T/$prof/$b"
    [ -x "$exe" ] || { echo "no binary $exe"; continue; }
    objs+=("-object" "$exe")
    ( cd /verif && LLVM_PROFILE_FILE="$T/prof/$b-$prof-%p.profraw" VERIF_REACH=1 nice -n 19 "$exe" $TIER --deadline 100000 --out "$T/prof/$b-$prof.json" >/dev/null 2>"$T/prof/$b-$prof.err" ; echo "$b $prof exit $?" )
  done
done
"$LLVM/llvm-profdata" merge -sparse "$T"/prof/*.profraw -o "$T/all.profdata"
"$LLVM/llvm-cov" report -instr-profile "$T/all.profdata" "${objs[@]:1}" /repo/src 2>/dev/null > "$OUT/summary.txt"
"$LLVM/llvm-cov" show -instr-profile "$T/all.profdata" "${objs[@]:1}" /repo/src -show-line-counts-or-regions=false -show-instantiations=false 2>/dev/null \
  | awk '/^\/repo\/src/ {file=$0; sub(/:$/,"",file)} /^ +[0-9]+\| +0\|/ {print file ":" $0}' > "$OUT/uncovered.txt"
wc -l "$OUT/uncovered.txt"
rm -rf "$T"

#!/usr/bin/env python3
"""Seeded-change bookkeeping.

  seed.py verify <ID> <k>     confirm, in the scratch worktree /tmp/wt/<ID>, that out/mutant<k>.diff
                              compiles, passes the pinned suite, and that the demonstration fails with it
                              and passes without it; on success store it under /verif/seeded/<ID>-m<k>/
  seed.py trial <name> [ids]  apply seeded/<name>/patch.diff to /repo, run the quick checks (default:
                              the property it breaks), undo, record the outcome in seeded/<name>/trial.json
"""
import json, os, re, shutil, subprocess, sys, time

ENV = dict(os.environ, CARGO_NET_OFFLINE="true", CARGO_TERM_COLOR="never")
FEATURES = {"C18": ["--features", "numtraits"], "C19": ["--features", "numtraits"], "C20": ["--features", "rand"]}


def sh(cmd, cwd, timeout=3000):
    p = subprocess.run(cmd, cwd=cwd, env=ENV, stdout=subprocess.PIPE, stderr=subprocess.STDOUT, text=True, timeout=timeout)
    return p.returncode, p.stdout


def suite(wt):
    rc, out = sh(["cargo", "nextest", "run", "--workspace", "--no-fail-fast", "--tool-config-file", "pb:/w/lib/nextest.toml",
                  "--profile", "pb", "--test-threads", "8", "--offline"], wt)
    m = re.search(r"(\d+) tests run: (\d+) passed", out)
    return rc == 0 and m is not None and m.group(1) == m.group(2) == "1945", (m.group(0) if m else out[-600:])


def verify(pid, k, outdir="out", tag="m"):
    wt = os.environ.get("SEED_WT") or "/tmp/wt/%s" % pid
    out = os.path.join(wt, outdir)
    patch = os.path.join(out, "mutant%s.diff" % k)
    demo = os.path.join(out, "demo%s.rs" % k)
    meta = json.load(open(os.path.join(out, "meta%s.json" % k)))
    dc = meta.get("demo_command", "")
    # the command itself, not remarks after it ("... passes with --release")
    release = "--release" in dc.split("(")[0].split(";")[0] and os.environ.get("SEED_NO_RELEASE") is None
    sh(["git", "checkout", "--", "."], wt)
    shutil.rmtree(os.path.join(wt, "tests"), ignore_errors=True)
    res = {}
    rc, o = sh(["git", "apply", patch], wt)
    if rc != 0:
        print("patch does not apply:", o)
        return 1
    os.makedirs(os.path.join(wt, "tests"), exist_ok=True)
    ok, summ = suite(wt)
    res["suite_passes_with_change"] = ok
    res["suite_summary"] = summ
    extra = FEATURES.get(pid, [])
    if extra:
        rc, o = sh(["cargo", "test", "--offline", "--features", "numtraits,rand", "--lib"], wt)
        res["feature_suite_passes_with_change"] = rc == 0
    shutil.copy(demo, os.path.join(wt, "tests", "demo%s.rs" % k))
    cmd = ["cargo", "test", "--offline", "--test", "demo%s" % k] + extra + (["--release"] if release else [])
    rc, o = sh(cmd, wt)
    res["demo_fails_with_change"] = rc != 0 and ("test result: FAILED" in o or "panicked" in o or "overflowed its stack" in o or "SIGABRT" in o or "SIGSEGV" in o)
    res["demo_output_with_change"] = o[-800:]
    sh(["git", "checkout", "--", "."], wt)
    rc, o = sh(cmd, wt)
    res["demo_passes_without_change"] = rc == 0
    res["demo_command"] = " ".join(cmd)
    shutil.rmtree(os.path.join(wt, "tests"), ignore_errors=True)
    good = res["suite_passes_with_change"] and res["demo_fails_with_change"] and res["demo_passes_without_change"] and res.get("feature_suite_passes_with_change", True)
    print(pid, k, "CONFIRMED" if good else "REJECTED", {a: b for a, b in res.items() if "output" not in a})
    if good:
        name = "%s-%s%s" % (pid, tag, k)
        d = "/verif/seeded/" + name
        os.makedirs(d, exist_ok=True)
        shutil.copy(patch, os.path.join(d, "patch.diff"))
        shutil.copy(demo, os.path.join(d, "demo.rs"))
        meta2 = {
            "property": pid,
            "origin": "independent sub-agent given only the property text and a scratch worktree",
            "description": meta.get("description"),
            "needs_to_manifest": meta.get("needs_to_manifest"),
            "files_changed": meta.get("files_changed"),
            "confirmed_by_me": {a: b for a, b in res.items() if "output" not in a},
            "what_i_ran": ["git apply patch.diff (scratch worktree %s)" % wt, "pinned suite: cargo nextest run --workspace ... (1945 pass)", res["demo_command"] + " (fails with, passes without)"],
        }
        json.dump(meta2, open(os.path.join(d, "meta.json"), "w"), indent=1)
    return 0 if good else 1


def trial(name, ids):
    d = "/verif/seeded/" + name
    meta = json.load(open(os.path.join(d, "meta.json")))
    ids = ids or [meta["property"]]
    rc, o = sh(["git", "status", "--porcelain"], "/repo")
    if o.strip():
        print("/repo not clean, refusing")
        return 2
    rc, o = sh(["git", "apply", os.path.join(d, "patch.diff")], "/repo")
    if rc != 0:
        print("patch does not apply to /repo:", o)
        return 2
    results = {}
    try:
        for pid in ids:
            t = time.time()
            rc, o = sh(["./run", pid, "quick"], "/verif")
            viol = [l for l in o.splitlines() if l.startswith("VIOLATION")]
            results[pid] = {"exit": rc, "violation_lines": len(viol), "first": (viol[0] if viol else ""), "detail": [l for l in o.splitlines() if l.startswith("  ")][:3], "wall_s": round(time.time() - t, 1)}
            print(name, pid, "exit", rc, "violations", len(viol), "%.0fs" % (time.time() - t))
            if rc == 2:
                print(o[-1500:])
    finally:
        sh(["git", "checkout", "--", "."], "/repo")
    tj = os.path.join(d, "trial.json")
    old = json.load(open(tj)) if os.path.exists(tj) else {}
    old.update(results)
    json.dump(old, open(tj, "w"), indent=1)
    return 0


def vverify(pid, k):
    """property-PRESERVING variant from /tmp/wt/V<nn>/out5: suite passes with it; the demo (if any) passes
    with it and fails without it; stored under seeded/_variants/<pid>-v<k>/"""
    wt = "/tmp/wt/V%s" % pid[1:]
    out = os.path.join(wt, "out5")
    patch = os.path.join(out, "variant%s.diff" % k)
    demo = os.path.join(out, "vdemo%s.rs" % k)
    meta = json.load(open(os.path.join(out, "vmeta%s.json" % k)))
    sh(["git", "checkout", "--", "."], wt)
    shutil.rmtree(os.path.join(wt, "tests"), ignore_errors=True)
    res = {}
    rc, o = sh(["git", "apply", patch], wt)
    if rc != 0:
        print("patch does not apply:", o)
        return 1
    ok, summ = suite(wt)
    res["suite_passes_with_change"] = ok
    res["suite_summary"] = summ
    extra = FEATURES.get(pid, [])
    if extra:
        rc, o = sh(["cargo", "test", "--offline", "--features", "numtraits,rand", "--lib"], wt)
        res["feature_suite_passes_with_change"] = rc == 0
    if os.path.exists(demo):
        os.makedirs(os.path.join(wt, "tests"), exist_ok=True)
        shutil.copy(demo, os.path.join(wt, "tests", "vdemo%s.rs" % k))
        cmd = ["cargo", "test", "--offline", "--test", "vdemo%s" % k] + extra
        rc, o = sh(cmd, wt)
        res["demo_passes_with_change"] = rc == 0
        sh(["git", "checkout", "--", "."], wt)
        rc, o = sh(cmd, wt)
        res["demo_fails_without_change"] = rc != 0
        shutil.rmtree(os.path.join(wt, "tests"), ignore_errors=True)
    sh(["git", "checkout", "--", "."], wt)
    good = res["suite_passes_with_change"] and res.get("feature_suite_passes_with_change", True) and res.get("demo_passes_with_change", True)
    print(pid, k, "VARIANT-OK" if good else "VARIANT-REJECTED", res)
    if good:
        d = "/verif/seeded/_variants/%s-v%s" % (pid, k)
        os.makedirs(d, exist_ok=True)
        shutil.copy(patch, os.path.join(d, "patch.diff"))
        if os.path.exists(demo):
            shutil.copy(demo, os.path.join(d, "vdemo.rs"))
        meta["property"] = pid
        meta["origin"] = "independent sub-agent given only the property text; asked for a change under which the property still holds"
        meta["confirmed_by_me"] = res
        json.dump(meta, open(os.path.join(d, "meta.json"), "w"), indent=1)
    return 0 if good else 1


if __name__ == "__main__" and sys.argv[1] == "vverify":
    sys.exit(vverify(*sys.argv[2:]))


if __name__ == "__main__":
    if sys.argv[1] == "verify":
        sys.exit(verify(*sys.argv[2:]))
    if sys.argv[1] == "trial":
        sys.exit(trial(sys.argv[2], sys.argv[3:]))
